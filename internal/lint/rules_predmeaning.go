package lint

import (
	"go/token"
	"sort"
	"strings"

	"golang.org/x/tools/go/ssa"
)

// rulePredMeaning: PRED-MEANING.
//
// READ-SERVE, READ-INDEX and CONF-GUARD reason with the atoms r.committedThisTerm() and r.pendingConfigurationChange()
// — they check WHERE the predicates are tested, by name. What the predicates MEAN is this rule: every value either of
// them can return is one of the comparisons its meaning consists of (or the constant of the safe side).
func rulePredMeaning() *Rule {
	const id = "PRED-MEANING"
	return &Rule{
		ID: id,
		Text: "committedThisTerm() returns only term(log[commitIndex]) == currentTerm (the entry fetched with Log.GetEntry(r.commitIndex)), lastIncludedTerm == currentTerm, or false; " +
			"pendingConfigurationChange() returns only committedConfiguration == nil, committedConfiguration.Index != configuration.Index, or true.",
		Floor: 2,
		Run: func(p *Program) []Obligation {
			type spec struct {
				fn      string
				allowed map[string]bool // "x OP y" with x < y lexicographically
				safe    string          // the constant that may be returned
				why     string
			}
			key := func(x, op, y string) string {
				if x > y {
					x, y = y, x
				}
				return x + " " + op + " " + y
			}
			specs := []spec{
				{fn: "(*Raft).committedThisTerm", safe: "false",
					allowed: map[string]bool{
						key("r.log.GetEntry(r.commitIndex)#0.Term", "==", "r.currentTerm"): true,
						key("r.lastIncludedTerm", "==", "r.currentTerm"):                   true,
					},
					why: "a leader that believes it has committed in its term although it has not serves reads at a commit index that may lag behind what its predecessor acknowledged, and accepts membership changes it must refuse"},
				{fn: "(*Raft).pendingConfigurationChange", safe: "true",
					allowed: map[string]bool{
						key("r.committedConfiguration", "==", "nil:*Configuration"):          true,
						key("r.committedConfiguration.Index", "!=", "r.configuration.Index"): true,
					},
					why: "a membership change is accepted, or a snapshot labelled with the configuration in force, while another change is still uncommitted"},
			}
			var out []Obligation
			for _, sp := range specs {
				fn := p.Func(sp.fn)
				if fn == nil {
					out = append(out, missing(id, sp.fn)...)
					continue
				}
				fr := NewRootFrame(fn)
				ob := Obligation{Rule: id, Construct: "meaning of " + sp.fn, Pos: p.Pos(fn.Pos())}
				var bad []string
				// arms of branches on the allowed comparisons: block -> comparisons known true / known false there
				type arm struct {
					blk  *ssa.BasicBlock
					key  string
					true bool
				}
				var arms []arm
				for _, b := range fn.Blocks {
					iff, ok := b.Instrs[len(b.Instrs)-1].(*ssa.If)
					if !ok {
						continue
					}
					bo, ok := iff.Cond.(*ssa.BinOp)
					if !ok || (bo.Op != token.EQL && bo.Op != token.NEQ) {
						continue
					}
					k := key(p.Canon(fr, bo.X).S, bo.Op.String(), p.Canon(fr, bo.Y).S)
					if !sp.allowed[k] {
						continue
					}
					if len(b.Succs[0].Preds) == 1 {
						arms = append(arms, arm{b.Succs[0], k, true})
					}
					if len(b.Succs[1].Preds) == 1 {
						arms = append(arms, arm{b.Succs[1], k, false})
					}
				}
				constOK := func(at *ssa.BasicBlock) bool {
					if sp.safe == "false" {
						// "true" is what one allowed comparison says: some comparison is known true here
						for _, a := range arms {
							if a.true && a.blk.Dominates(at) {
								return true
							}
						}
						return false
					}
					// "false" needs every allowed comparison known false here
					for k := range sp.allowed {
						found := false
						for _, a := range arms {
							if a.key == k && !a.true && a.blk.Dominates(at) {
								found = true
							}
						}
						if !found {
							return false
						}
					}
					return true
				}
				seen := map[ssa.Value]bool{}
				var leafAt func(v ssa.Value, at *ssa.BasicBlock)
				leafAt = func(v ssa.Value, at *ssa.BasicBlock) {
					if _, isC := v.(*ssa.Const); !isC {
						if seen[v] {
							return
						}
						seen[v] = true
					}
					switch x := v.(type) {
					case *ssa.Phi:
						for i, e := range x.Edges {
							leafAt(e, x.Block().Preds[i])
						}
					case *ssa.Const:
						if x.Value == nil || x.Value.String() != sp.safe {
							if at == nil || !constOK(at) {
								bad = append(bad, "the constant "+constString(x))
							}
						}
					case *ssa.BinOp:
						if x.Op != token.EQL && x.Op != token.NEQ {
							bad = append(bad, p.Canon(fr, x).S)
							return
						}
						k := key(p.Canon(fr, x.X).S, x.Op.String(), p.Canon(fr, x.Y).S)
						if !sp.allowed[k] {
							bad = append(bad, k)
						}
					default:
						bad = append(bad, p.Canon(fr, v).S)
					}
				}
				n := 0
				for _, b := range fn.Blocks {
					if ret, ok := b.Instrs[len(b.Instrs)-1].(*ssa.Return); ok && len(ret.Results) == 1 {
						n++
						leafAt(returnedValue(ret, 0), b)
					}
				}
				switch {
				case n == 0:
					ob.Verdict, ob.Detail = Undecided, "no return found"
				case len(bad) > 0:
					sort.Strings(bad)
					ob.Verdict = Violated
					ob.Detail = sp.fn + " can return " + strings.Join(bad, "; ") + ", which is not one of the comparisons its meaning consists of: " + sp.why
				default:
					var al []string
					for k := range sp.allowed {
						al = append(al, k)
					}
					sort.Strings(al)
					ob.Verdict, ob.Detail = Discharged, "returns only: "+strings.Join(al, " | ")+" | "+sp.safe
				}
				out = append(out, ob)
			}
			return out
		},
	}
}
