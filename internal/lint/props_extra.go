package lint

// extraRules registers the rule families kept in their own files (tables, storage, locks, ...).
func extraRules() []*Rule {
	var out []*Rule
	out = append(out, rulesLocks()...)
	out = append(out, rulesTables()...)
	out = append(out, rulesStorage()...)
	out = append(out, ruleLifecycle(), ruleHeartbeat(), ruleRecordOffset(), ruleFollowerLookup(), ruleOffsetOwner(), ruleSendLabel(), ruleVerifyRound(), ruleContactRefresh(), ruleHandlerDemote(), rulePrevoteToken(), ruleApplyWait(), ruleRestoreReconcile(), ruleOptionRange(), rulePartialReset(), ruleLeaseDuration(), ruleLogPosition(), ruleSnapVisible(), ruleAEBound(), ruleLoopAlias())
	return out
}

// extraSpecs contributes rules of those families to the properties.
func extraSpecs() []*PropertySpec {
	return []*PropertySpec{
		{
			ID:         "C12",
			Rules:      []string{"LOG-WSP", "TMP-RENAME", "TMP-CLEAN", "REPLAY-TAIL", "ERR-DISC", "COMPACT-KEEP", "RECORD-OFFSET"},
			Decided:    "every log mutator writes, fsyncs and only then publishes in memory, every error path returns before publishing; compaction and discard go through a temporary file in the log directory that is synced and closed (as is the old file) before the rename, the in-memory log is replaced only afterwards and the temporary is removed on failure; NewLog removes temporaries; Replay distinguishes a clean end from a torn tail, truncates the file to the last complete record, syncs and repositions; no storage error is dropped; Compact/DiscardEntries keep exactly the boundary placeholder and suffix",
			NotDecided: "byte-prefix semantics of the file system; decoding of garbage in the middle of the file; directory fsync after rename (no site in the repository does it; not inferred as a rule)",
		},
		{
			ID:         "C13",
			Rules:      []string{"STATE-ATOMIC", "SNAP-ATOMIC", "SNAP-PICK", "TMP-CLEAN", "WALK-RM", "ERR-DISC"},
			Decided:    "term/vote and snapshots are written to a temporary file/directory that is synced and closed before the atomic rename, with cleanup on failure; the three constructors remove temporaries first and the walk that does so skips a removed directory; SnapshotFile returns the last of the sorted, final-name-only directory list; no storage error is dropped",
			NotDecided: "that the directory sort key is right (examined: the Sscanf-based comparator always fails but the pick stays correct because ReadDir order is already sorted; see DESIGN C13); file-system behaviour; directory fsync",
		},
		{
			ID:         "C14",
			Rules:      []string{"SNAP-ORDER", "RESTORE-COVER", "TMP-CLEAN", "WALK-RM", "REPLAY-TAIL", "TERM-VOTE", "FATAL-IO"},
			Thorough:   []string{"STATE-ATOMIC", "LOG-WSP", "TMP-RENAME", "SNAP-ATOMIC"},
			Decided:    "the snapshot is durable (Close, error fatal) before the snapshot boundary is stored, which precedes trimming the log, on both the local and the install path; restore covers all four stores (log open+replay, term/vote, newest snapshot with its label, configuration scan) and NewRaft calls it; constructors clean temporaries; a torn log tail is repaired; term/vote are persisted before any reply; Fatal is reached only through a non-nil error of a storage/state-machine/codec call",
			NotDecided: "which concrete crash images make a later GetEntry fail (needs the directory image, see observation O2); convergence after restart (C15)",
		},
		{ID: "C04", Rules: []string{"LOG-WSP", "RESTORE-COVER"}, Decided: "the bundled log syncs before publishing an append; restore rebuilds term, vote, log, snapshot boundary and configuration from disk"},
		{ID: "C08", Rules: []string{"RESTORE-COVER"}, Thorough: []string{"STATE-ATOMIC"}, Decided: "restore reloads currentTerm and votedFor from results #0/#1 of StateStorage.State()"},
		{ID: "C10", Rules: []string{"RESTORE-COVER"}, Decided: "restore takes lastApplied, commitIndex and the snapshot boundary from the metadata of the very file handed to StateMachine.Restore"},
		{ID: "C05", Rules: []string{"VERIFY-ROUND"}, Decided: "a read is marked quorum-verified only by a heartbeat round that was started after the read was submitted (per-operation stamp strictly below the round's identifier, which is fixed when the round starts)"},
		{ID: "C10", Rules: []string{"SNAP-VISIBLE"}, Decided: "a snapshot directory that is still being written is never visible to SnapshotFile(), so nothing is restored from or sent out of a file whose label is complete and whose content is not"},
		{ID: "C14", Rules: []string{"SNAP-VISIBLE"}, Decided: "as C10: a restart never restores from an unfinished snapshot directory"},
		{ID: "C08", Rules: []string{"STATE-ATOMIC"}, Decided: "what persistTermAndVote hands to the bundled state storage is what a later State() returns: the record is built from the arguments, replaced atomically, and the cache State() answers from is left equal to it"},
		{ID: "C02", Rules: []string{"STATE-ATOMIC"}, Decided: "as C08: the vote a node has cast is what it finds after Stop/Restart or a crash"},
		{ID: "C07", Rules: []string{"IS-HANDLER/IS-TRIM,BOUNDARY-ATOMIC", "RESTORE-RECONCILE"}, Decided: "a voter keeps the log suffix it has acknowledged when a snapshot that ends inside its log arrives (the suffix is dropped only if the entry at the snapshot's last index has a different term), and a restart discards the log only if it does not contain that entry"},
		{ID: "C11", Rules: []string{"RESTORE-RECONCILE"}, Decided: "a restart between the publication of a received snapshot and the reset of the log does not bring back a log that conflicts with the snapshot"},
		{ID: "C19", Rules: []string{"REPLAY-TAIL", "COMPACT-KEEP"}, Decided: "what Replay reads back is what was appended: the end of the last complete record is where the decoder stopped (not where a read-ahead buffer stopped), a torn tail is cut there, and compaction rewrites exactly the kept records"},
		{ID: "C14", Rules: []string{"STATE-ATOMIC", "SNAP-ATOMIC", "LOG-WSP", "TMP-RENAME", "LOG-POSITION", "RECORD-OFFSET", "ERR-DISC"}, Decided: "each storage operation the property quantifies over leaves, at every crash point, a directory the constructors reopen: term/vote and snapshots are replaced atomically, log mutations are write-sync-publish, compaction goes through a synced temporary and a rename"},
		{ID: "C04", Rules: []string{"LOG-POSITION", "ERR-DISC", "FATAL-IO"}, Decided: "no error of the log or state storage is dropped on the way to an acknowledgement; offsets recorded in the log are real positions"},
		{ID: "C12", Rules: []string{"WALK-RM"}, Decided: "the cleanup of temporaries that NewLog runs before reopening cannot fail on what a crash leaves behind"},
		{ID: "C02", Rules: []string{"RESTORE-COVER"}, Decided: "the vote is reloaded from storage on every start"},
		{ID: "C08", Rules: []string{"ERR-DISC", "FATAL-IO"}, Decided: "an error of the state storage is never dropped: term and vote are durable or the node stops"},
		{ID: "C10", Rules: []string{"CHUNK-BOUND", "SNAP-ATOMIC"}, Decided: "the bytes of a snapshot chunk are private to the send that carries them, and the metadata written next to a snapshot is built from the arguments of its creation"},
		{ID: "C15", Rules: []string{"VOTE-REQUESTS", "PREVOTE-TOKEN"}, Decided: "a campaign asks every voter, and a prevote that was won leads to exactly one real candidacy"},
		{ID: "C17", Rules: []string{"QUORUM-SHAPE"}, Decided: "the quorum that renews the lease is a strict majority of voters, and the single-voter shortcut applies only to a node that is itself the voter"},
		{ID: "C09", Rules: []string{"IS-HANDLER/IS-COMPLETE"}, Decided: "an installed snapshot's configuration is applied together with it"},
		{ID: "C15", Rules: []string{"AE-BOUND"}, Decided: "what one AppendEntries request carries is bounded, so a member that is far behind is brought up to date in requests the transport accepts"},
		{ID: "C09", Rules: []string{"LOOP-ALIAS"}, Decided: "the configurations restore() leaves in r.configuration and r.committedConfiguration are distinct objects per log entry (no pointer to a loop-carried variable is kept in node state)"},
		{ID: "C01", Rules: []string{"COMPACT-KEEP"}, Decided: "the bundled log's LastIndex/LastTerm, which the vote restriction compares against, survive compaction"},
		{ID: "C08", Rules: []string{"COMPACT-KEEP"}, Decided: "as C01: a vote is refused to a candidate whose log is behind also when the voter's log has just been compacted to its last entry"},
		{ID: "C02", Rules: []string{"COMPACT-KEEP"}, Decided: "as C08"},
		{ID: "C13", Rules: []string{"CODEC-PAIR"}, Decided: "the state record and the snapshot metadata that are written are what the decoders read back, every length the encoder writes is accepted"},
		{ID: "C12", Rules: []string{"CODEC-PAIR"}, Decided: "a log record that was written completely decodes to the entry that was written"},
		{ID: "C12", Rules: []string{"LOG-POSITION"}, Decided: "the log file is never in append mode and is positioned whenever a new descriptor is installed, so a record's Offset is where the record is"},
		{ID: "C19", Rules: []string{"LOG-POSITION"}, Decided: "as C12: offsets read back from storage equal the positions written"},
		{ID: "C06", Rules: []string{"LOG-POSITION"}, Decided: "Truncate cuts the persistent log where the in-memory log says"},
		{ID: "C17", Rules: []string{"LEASE-DURATION"}, Decided: "every lease, in particular a new leader's, is extended at each renewal by the CONFIGURED lease duration, for which the timing assumption is stated"},
		{ID: "C17", Rules: []string{"CONTACT-REFRESH"}, Decided: "every AppendEntries reply that the leader counts towards its lease quorum (accepted or rejected for a log mismatch) was preceded by the voter's refresh of lastContact, the promise the lease rests on"},
		{ID: "C16", Rules: []string{"CONTACT-REFRESH"}, Decided: "a voter in contact with the leader (any non-stale AppendEntries, also a rejected one) refreshes lastContact, which is what makes it ignore vote requests"},
		{ID: "C16", Rules: []string{"HANDLER-DEMOTE"}, Decided: "a (pre)candidate that accepts a message from the leader of its own or a later term becomes a follower before it answers: otherwise its next election timeout counts as a won prevote and it raises its term unasked"},
		{ID: "C02", Rules: []string{"HANDLER-DEMOTE"}, Decided: "a candidate that recognises the leader of its term stops campaigning in that term"},
		{ID: "C16", Rules: []string{"COUNT-VOTES"}, Decided: "a prevote is won only by a quorum counted within ONE round (a counter local to the round, one count per peer): grants of successive rounds of a partitioned minority must not add up"},
		{ID: "C16", Rules: []string{"PREVOTE-TOKEN"}, Decided: "a campaign raises the term only on the strength of a prevote won for this attempt (a token set by a prevote quorum and spent by the increment): a candidate whose election timed out asks again"},
		{ID: "C06", Rules: []string{"RECORD-OFFSET"}, Decided: "the persistent log agrees with the in-memory one after a conflict was repaired: Truncate cuts the file by the entry's Offset, so every entry the log keeps carries the position of its own record"},
		{ID: "C01", Rules: []string{"IS-HANDLER"}, Decided: "a follower keeps its log across a snapshot installation only if its entry at the snapshot's last index has the snapshot's last term (otherwise the state machine is restored and the log discarded): a stale suffix that merely reaches that index is never adopted, committed and applied"},
		// ---- rules borrowed across properties: the seeded changes showed that a change written against one property is
		// often reported only by a rule of a property it is stated in terms of (state-machine safety rests on election
		// safety, log matching and the persistent log; acknowledged operations rest on the log's file format; ...).
		{ID: "C01", Rules: []string{"VOTE-GRANT", "TERM-VOTE", "STATE-TRANSITIONS", "COUNT-VOTES", "AE-HANDLER", "SNAP-LABEL", "SEND-LABEL"},
			Decided: "state-machine safety rests on election safety (C02), log matching (C06) and exact snapshots (C10): their rules are evaluated with it"},
		{ID: "C03", Rules: []string{"COMMIT-FOLLOWER", "AE-HANDLER", "IS-HANDLER"}, Decided: "what a follower commits and applies (and so what a later leader acknowledges) is bounded by what it verified against the leader's log"},
		{ID: "C04", Rules: []string{"RECORD-OFFSET", "COMPACT-KEEP", "REPLAY-TAIL"}, Decided: "an acknowledged entry stays on disk across truncation, compaction and reopen of the bundled log"},
		{ID: "C06", Rules: []string{"LOG-WSP", "COMPACT-KEEP"}, Decided: "the persistent log is written and compacted faithfully to the in-memory one"},
		{ID: "C07", Rules: []string{"TERM-VOTE", "STATE-TRANSITIONS", "COUNT-VOTES", "AE-HANDLER"}, Decided: "leader completeness rests on one vote per term, a real-vote quorum and log matching"},
		{ID: "C11", Rules: []string{"RECORD-OFFSET", "LOG-WSP"}, Decided: "entries that survive a compaction keep the position of their own record, so a later truncation cuts the file where the log says"},
		{ID: "C15", Rules: []string{"APPLY-WAIT"}, Decided: "the apply loop never sleeps on its edge-triggered signal while committed entries are waiting (a lost wake-up would leave a follower of an idle cluster behind for ever)"},
		{ID: "C14", Rules: []string{"IS-HANDLER"}, Decided: "a snapshot transfer that a crash of the receiver interrupted restarts from the receiver's real offset: a chunk is written only at the offset the partial file has reached"},
		{ID: "C18", Rules: []string{"APPLY-WAIT"}, Decided: "the exported InstallSnapshot handler does not block for ever on an idle cluster: the apply loop signals what it applied"},
		{ID: "C14", Rules: []string{"RESTORE-RECONCILE"}, Decided: "a node started over a directory in which a received snapshot is visible but the log was not yet discarded brings the log in line with the snapshot, so that it accepts what follows the snapshot"},
		{ID: "C15", Rules: []string{"RESTORE-RECONCILE"}, Decided: "the restarted node of C14's interrupted installation catches up (it would otherwise reject both the entries after the snapshot and the snapshot)"},
		{ID: "C18", Rules: []string{"OPTION-RANGE"}, Decided: "invalid option values that would crash or cripple the node later (a log level beyond Fatal, an election timeout below one millisecond) are refused with an error at construction"},
		{ID: "C10", Rules: []string{"PARTIAL-RESET"}, Decided: "a partially received snapshot never survives a term or leader change, so chunks of two snapshots are never mixed in one file across it"},
		{ID: "C11", Rules: []string{"PARTIAL-RESET"}, Decided: "a partially received snapshot never survives a term or leader change"},
		{ID: "C15", Rules: []string{"PARTIAL-RESET"}, Decided: "a member that was receiving a snapshot when the leader changed starts the next transfer from an empty file, so it ends with the new leader's snapshot and not with a mixture it can never recover from"},
		{ID: "C14", Rules: []string{"PARTIAL-RESET"}, Decided: "as C15, for the schedule in which the transfer was interrupted by a crash of the sender"},
		{ID: "C10", Rules: []string{"SEND-LABEL"}, Decided: "a snapshot request is labelled with the metadata of the very file whose bytes it carries, not with the node's boundary"},
		{ID: "C11", Rules: []string{"SEND-LABEL"}, Decided: "a snapshot request is labelled with the metadata of the very file whose bytes it carries"},
		{ID: "C11", Rules: []string{"COMPACT-KEEP"}, Decided: "Compact keeps the boundary entry as placeholder plus the suffix, DiscardEntries leaves exactly the placeholder, LastIndex/LastTerm/NextIndex read the last element"},
		{ID: "C15", Rules: []string{"CHUNK-BOUND", "HEARTBEAT"}, Decided: "the bytes of one InstallSnapshot request are bounded by the chunk constant, itself below the 4 MiB gRPC limit (one known finding D15); heartbeats go to every member on every tick of a non-follower; the election timeout is re-randomised per iteration"},
		{ID: "C19", Rules: []string{"CHUNK-BOUND", "RECORD-OFFSET"}, Decided: "snapshot payloads cross the transport in bounded chunks (one known finding D15)"},
		{ID: "C18", Rules: []string{"LIFECYCLE", "FOLLOWER-LOOKUP"}, Decided: "exhaustive exploration of Start/Restart/Stop/Bootstrap sequences over the (running, log open, configured, lifecycle flags) automaton extracted from the code: a running node always has its log open and no lifecycle method uses a closed log"},
		{ID: "C01", Rules: []string{"APPLY-ORDER"},
			Decided: "the apply loop fetches log[lastApplied+1] only while lastApplied < commitIndex, hands exactly that entry's index/term/data to the state machine and advances lastApplied by one"},
		{ID: "C07", Rules: []string{"COMPACT-KEEP"}, Decided: "the bundled log's LastIndex/LastTerm, which the vote restriction compares against, survive compaction (the boundary entry, with its term, stays as the placeholder)"},
		{ID: "C07", Rules: []string{"COMMIT-LEADER", "SENDER", "QUORUM-SHAPE"},
			Decided: "an entry is reported committed by a leader only when a majority of voters verifiably holds it (matchIndex set from what a request of this term carried, reset on every election win): without that, a later leader elected by the other majority need not have it"},
		{ID: "C07", Rules: []string{"LEADER-APPEND"},
			Decided: "a leader creates entries only at NextIndex() with its current term and appends a no-op of its term before its first send"},
		{
			ID:         "C03",
			Rules:      []string{"LEADER-APPEND", "APPLY-ORDER", "LEADER-EXIT-RESET", "FUT-RESOLVE", "COMMIT-LEADER", "SENDER", "QUORUM-SHAPE"},
			Thorough:   []string{"OWNERS", "COMMIT-FOLLOWER"},
			Decided:    "a future is answered at apply time, i.e. for a committed entry, so the leader's commit rule is a necessary condition of a truthful acknowledgement: commit only by counting voters whose matchIndex was set from what a request of this term verifiably carried (COMMIT-LEADER, SENDER/MATCH-PROV, QUORUM-SHAPE); futures of replicated operations are registered under the index of the very entry appended (after the append, same critical section, as leader), answered from that entry and the state machine's result for it, removed at lookup, and failed (tables emptied, manager replaced) on every exit from the leader role to a running role; every future is answered or registered with a responder on every path",
			NotDecided: "linearizability of client histories, real-time order, at-most-once application (properties of histories; not decidable from the shape of the code)",
		},
		{
			ID:         "C04",
			Rules:      []string{"AE-HANDLER", "LEADER-APPEND", "SENDER", "COMMIT-LEADER", "QUORUM-SHAPE"},
			Decided:    "leader: entry appended (error fatal) before the future is registered and before anything is sent; follower: every accepting return is preceded by Log.AppendEntries of a suffix of the request's entries; matchIndex is request.PrevLogIndex+len(entries) of the request sent, recorded only on Success from a member on a still-leader and reset on leader entry; commitment needs a strict majority of voters' matchIndex",
			NotDecided: "what is physically on other nodes' disks at the instant of the acknowledgement (follows from the rules plus Raft's argument); durability of the bundled log itself is decided under C12",
		},
		{
			ID:         "C10",
			Rules:      []string{"SNAP-LABEL", "FSM-EXCL", "APPLY-RECHECK", "IS-HANDLER"},
			Thorough:   []string{"APPLY-ORDER", "OWNERS"},
			Decided:    "a local snapshot is labelled with index/term of log[lastApplied] and the committed configuration read in one critical section; Snapshot/Restore/replicated Apply must be mutually excluded by the node mutex from label read to return (two known findings D8, D9 on the pinned tree); the apply loop re-checks lastApplied after its unlocked Apply; on installation lastApplied/commitIndex move to the request's label only after Restore",
			NotDecided: "the bytes of a snapshot; equality of restored and replayed state",
		},
		{
			ID:         "C11",
			Rules:      []string{"IS-HANDLER", "SENDER", "SNAP-LABEL", "OWNERS"},
			Decided:    "the install handler writes nothing for a stale term, accepts only snapshots newer than the node's snapshot and applied state, writes a chunk only at the expected offset into the partial file of its own snapshot (one known finding D10), keeps the log suffix only behind the matching-boundary test re-validated after the wait, discards the log only after Restore; the sender reads its log only above the snapshot boundary",
			NotDecided: "that commit/applied never move backwards across the Restore window (protocol argument); byte equality of transferred snapshots",
		},
		{
			ID:         "C15",
			Rules:      []string{"LEADER-APPEND", "AE-HANDLER", "SENDER", "IS-HANDLER"},
			Decided:    "only necessary conditions of progress: a new leader appends a no-op of its term (so committedThisTerm can become true), every rejection carries the back-off hint and the leader uses it, the snapshot hand-shake advances only on Done at the expected offset and re-seeks otherwise, and the receiver of a snapshot never returns (or parks in a wait) after publishing the snapshot without having moved its boundary to the label (otherwise the re-sent tail restarts the transfer for ever)",
			NotDecided: "any bound, any 'eventually': that the cluster does make progress under a timing assumption is not decidable statically; decided are structural necessary conditions whose absence stops progress for ever (a wait without its predicate, a request the transport can never accept, a campaign that skips a voter)",
		},
		{
			ID:         "C18",
			Rules:      []string{"ENUM-SWITCH", "PANIC-SITES", "FATAL-IO", "WG-PARITY", "COND-PARITY", "FUT-NONBLOCK", "FUT-RESOLVE", "LOCK-PAIR"},
			Decided:    "every switch over a module enum with a panicking default covers all declared constants; explicit panics only there; Fatal only on I/O errors; wait-group and condition-variable parity (every waiter is woken by Stop and re-tests Shutdown); respond never blocks, futures have capacity and a timeout arm; every future is answered or registered with a live responder; lock pairing, no double lock, no blocking send or wait-group wait under the mutex",
			NotDecided: "implicit panics in general (nil/map/index) beyond the tabled sites; how long a call takes",
		},
		{
			ID:         "C19",
			Rules:      []string{"CONV-FIELDS", "CONV-GLUE", "CODEC-PAIR", "JSON-TAGS", "ENUM-CAST"},
			Decided:    "the six message converters and the entry converter are field-for-field inverse of each other over all fields of the domain and protobuf structs; each RPC uses its own converters, client method and handler; the three storage codecs read back every field they write with the same length-prefix type and byte order; entry types cross wire and disk by plain numeric conversion; snapshot metadata JSON tags are present and distinct",
			NotDecided: "protobuf-go and encoding/json themselves; []byte{} versus nil",
		},
		{
			ID:         "C20",
			Rules:      []string{"LOCKSET", "WINDOW-CLEAN", "LOCK-PAIR", "OFFSET-OWNER"},
			Decided:    "every access to a field of Raft that is written after construction, to follower/operationManager/lease state, to the per-round counters and every call on the (not concurrency-safe) log, state and snapshot storage objects happens with the node mutex held, in every calling context; the same for the transport's and connection manager's guarded fields; unlock windows touch only locals, immutable fields and thread-safe objects",
			NotDecided: "races inside user-supplied components, gRPC or the test scaffolding; lock identity is per field, not per object",
		},
	}
}
