package lint

// extraRules registers the rule families kept in their own files (tables, storage, locks, ...).
func extraRules() []*Rule {
	var out []*Rule
	out = append(out, rulesLocks()...)
	out = append(out, rulesTables()...)
	return out
}

// extraSpecs contributes rules of those families to the properties.
func extraSpecs() []*PropertySpec {
	return nil
}
