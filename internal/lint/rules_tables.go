package lint

import (
	"fmt"
	"go/token"
	"go/types"
	"reflect"
	"strings"

	"golang.org/x/tools/go/ssa"
)

// Table rules: C19 (encodings are lossless) in this file, C18 (total API) in tables_api.go.
// The frozen tables below name the protocol's converters, codecs and RPCs; renaming one of
// them yields ANCHOR-LOST, never a verdict.

func rulesTables() []*Rule {
	return []*Rule{
		ruleConvFields(),
		ruleConvGlue(),
		ruleCodecPair(),
		ruleJSONTags(),
		ruleEnumCast(),
		ruleEnumSwitch(),
		ruleWGParity(),
		ruleCondParity(),
		ruleFutNonblock(),
		rulePanicSites(),
		ruleFatalIO(),
	}
}

// ---------------------------------------------------------------------------------------------
// frozen tables

// tbConvRow is one message that crosses the wire: domain struct, protobuf struct, converters.
type tbConvRow struct {
	Domain, PB         string
	ToProto, FromProto string
	Except, ExceptPB   map[string]string
}

const tbOffsetReason = "LogEntry.Offset is the entry's position in the local log file; it is storage-local, is reassigned by the receiver's log before every write, and is deliberately not sent over the wire"

var tbConvTable = []tbConvRow{
	{Domain: "AppendEntriesRequest", PB: "AppendEntriesRequest", ToProto: "makeProtoAppendEntriesRequest", FromProto: "makeAppendEntriesRequest"},
	{Domain: "AppendEntriesResponse", PB: "AppendEntriesResponse", ToProto: "makeProtoAppendEntriesResponse", FromProto: "makeAppendEntriesResponse"},
	{Domain: "RequestVoteRequest", PB: "RequestVoteRequest", ToProto: "makeProtoRequestVoteRequest", FromProto: "makeRequestVoteRequest"},
	{Domain: "RequestVoteResponse", PB: "RequestVoteResponse", ToProto: "makeProtoRequestVoteResponse", FromProto: "makeRequestVoteResponse"},
	{Domain: "InstallSnapshotRequest", PB: "InstallSnapshotRequest", ToProto: "makeProtoInstallSnapshotRequest", FromProto: "makeInstallSnapshotRequest"},
	{Domain: "InstallSnapshotResponse", PB: "InstallSnapshotResponse", ToProto: "makeProtoInstallSnapshotResponse", FromProto: "makeInstallSnapshotResponse"},
	{Domain: "LogEntry", PB: "LogEntry", ToProto: "makeProtoEntries", FromProto: "makeEntries",
		Except:   map[string]string{"Offset": tbOffsetReason},
		ExceptPB: map[string]string{"Offset": "counterpart of the LogEntry.Offset exception: the field exists for the on-disk codec (encodeLogEntry) only"}},
}

// tbCodecRow is one on-disk codec.
type tbCodecRow struct {
	Domain, PB string
	Enc, Dec   string
	Framed     bool // length-prefixed
}

var tbCodecTable = []tbCodecRow{
	{Domain: "LogEntry", PB: "LogEntry", Enc: "encodeLogEntry", Dec: "decodeLogEntry", Framed: true},
	{Domain: "persistentState", PB: "StorageState", Enc: "encodePersistentState", Dec: "decodePersistentState", Framed: true},
	{Domain: "Configuration", PB: "Configuration", Enc: "encodeConfiguration", Dec: "decodeConfiguration", Framed: false},
}

// tbRPCRow is one RPC and every name that must agree for it.
type tbRPCRow struct {
	Name         string // pb client/server method
	Send         string
	Server       string
	Register     string
	IfaceReg     string // Transport interface method used by (*Raft).start
	HandlerField string
	RaftMethod   string
	ReqTo        string // domain -> pb request
	ReqFrom      string
	RespTo       string
	RespFrom     string
}

var tbRPCTable = []tbRPCRow{
	{Name: "AppendEntries", Send: "(*transport).SendAppendEntries", Server: "(*transport).AppendEntries", Register: "(*transport).RegisterAppendEntriesHandler",
		IfaceReg: "RegisterAppendEntriesHandler", HandlerField: "transport.appendEntriesHandler", RaftMethod: "(*Raft).AppendEntries",
		ReqTo: "makeProtoAppendEntriesRequest", ReqFrom: "makeAppendEntriesRequest", RespTo: "makeProtoAppendEntriesResponse", RespFrom: "makeAppendEntriesResponse"},
	{Name: "RequestVote", Send: "(*transport).SendRequestVote", Server: "(*transport).RequestVote", Register: "(*transport).RegisterRequestVoteHandler",
		IfaceReg: "RegisterRequestVoteHandler", HandlerField: "transport.requestVoteHandler", RaftMethod: "(*Raft).RequestVote",
		ReqTo: "makeProtoRequestVoteRequest", ReqFrom: "makeRequestVoteRequest", RespTo: "makeProtoRequestVoteResponse", RespFrom: "makeRequestVoteResponse"},
	// "Regsiter" is the spelling used by the repository.
	{Name: "InstallSnapshot", Send: "(*transport).SendInstallSnapshot", Server: "(*transport).InstallSnapshot", Register: "(*transport).RegsiterInstallSnapshotHandler",
		IfaceReg: "RegsiterInstallSnapshotHandler", HandlerField: "transport.installSnapshotHandler", RaftMethod: "(*Raft).InstallSnapshot",
		ReqTo: "makeProtoInstallSnapshotRequest", ReqFrom: "makeInstallSnapshotRequest", RespTo: "makeProtoInstallSnapshotResponse", RespFrom: "makeInstallSnapshotResponse"},
}

// tbConvInverse maps every converter of the table to its inverse.
func (p *Program) tbConvInverse() map[*ssa.Function]*ssa.Function {
	m := map[*ssa.Function]*ssa.Function{}
	for _, row := range tbConvTable {
		a, b := p.Func(row.ToProto), p.Func(row.FromProto)
		if a != nil && b != nil {
			m[a] = b
			m[b] = a
		}
	}
	return m
}

// tbSigMatches checks that fn takes (a pointer to / a slice of) from and returns to.
func tbSigMatches(fn *ssa.Function, from, to *types.Named, paramIdx int) bool {
	sig := fn.Signature
	if sig.Params().Len() <= paramIdx || sig.Results().Len() == 0 {
		return false
	}
	a, b := tbNamed(sig.Params().At(paramIdx).Type()), tbNamed(sig.Results().At(0).Type())
	return a != nil && b != nil && a.Obj() == from.Obj() && b.Obj() == to.Obj()
}

func tbParamRoot(what string) func(ssa.Value) (bool, string) {
	return func(base ssa.Value) (bool, string) {
		if tbRootedAt(base, tbIsParam) {
			return true, ""
		}
		return false, "the struct the value is read from does not derive from " + what
	}
}

// ---------------------------------------------------------------------------------------------
// CONV-FIELDS

func ruleConvFields() *Rule {
	const id = "CONV-FIELDS"
	return &Rule{
		ID: id,
		Text: "For each wire message (6 RPC messages and LogEntry): from the stores of makeProtoX derive domain field -> message field, from makeX derive message field -> domain field. " +
			"Every domain field is carried in both directions, the composition is the identity on field names, no two domain fields share a message field, conversions and nested converters are mutually inverse, " +
			"every exported field of the protobuf struct is set and read, and the populated struct is what the converter returns. Frozen exception: LogEntry.Offset is storage-local and not sent.",
		Floor: 40,
		Run: func(p *Program) []Obligation {
			var out []Obligation
			inverse := p.tbConvInverse()
			for _, row := range tbConvTable {
				enc, dec := p.Func(row.ToProto), p.Func(row.FromProto)
				dom, pbT := p.NamedType(row.Domain), p.tbLookupNamed(tbProtoPkgPath, row.PB)
				if enc == nil || dec == nil || tbStructOf(dom) == nil || tbStructOf(pbT) == nil {
					out = append(out, missing(id, fmt.Sprintf("converter pair %s/%s for %s", row.ToProto, row.FromProto, row.Domain))...)
					continue
				}
				if !tbSigMatches(enc, dom, pbT, 0) || !tbSigMatches(dec, pbT, dom, 0) {
					out = append(out, Obligation{Rule: id, Construct: "signatures of converter pair " + row.ToProto + "/" + row.FromProto, Pos: p.Pos(enc.Pos()),
						Verdict: Undecided, Detail: "the converters no longer convert between " + tbTypeName(dom) + " and " + tbTypeName(pbT)})
					continue
				}
				res := p.tbEvalPair(&tbPairSpec{
					Rule: id, Kind: "converter pair", Enc: enc, Dec: dec, Domain: dom, PB: pbT,
					Except: row.Except, ExceptPB: row.ExceptPB,
					EncSrcOK: tbParamRoot("the parameter of " + row.ToProto),
					DecSrcOK: tbParamRoot("the parameter of " + row.FromProto),
					Inverse:  inverse,
				})
				out = append(out, res.Obligations...)
				for _, d := range []*tbDirection{res.Enc, res.Dec} {
					ob := Obligation{Rule: id, Construct: "result of " + FuncName(d.Fn), Pos: p.Pos(d.Fn.Pos())}
					bases := d.bases()
					switch {
					case len(bases) != 1:
						ob.Verdict = Undecided
						ob.Detail = fmt.Sprintf("%d structs of type %s are filled in %s; expected exactly one", len(bases), tbTypeName(d.Target), FuncName(d.Fn))
					case !tbFlows(bases[0], tbIsReturn):
						ob.Verdict = Undecided
						ob.Detail = "the populated " + tbTypeName(d.Target) + " was not seen to reach the return value of " + FuncName(d.Fn)
					default:
						ob.Verdict = Discharged
						ob.Detail = "the populated " + tbTypeName(d.Target) + " is (an element of) the returned value"
					}
					out = append(out, ob)
				}
			}
			return out
		},
	}
}

// ---------------------------------------------------------------------------------------------
// CONV-GLUE

// tbCallsTo returns the calls in fn whose static callee is callee.
func tbCallsTo(fn, callee *ssa.Function) []*ssa.Call {
	var out []*ssa.Call
	for _, b := range fn.Blocks {
		for _, in := range b.Instrs {
			if c, ok := in.(*ssa.Call); ok && c.Common().StaticCallee() == callee {
				out = append(out, c)
			}
		}
	}
	return out
}

// tbConverterCalls lists the converter-table functions called by fn, by name.
func (p *Program) tbConverterCalls(fn *ssa.Function) map[string]bool {
	conv := p.tbConvInverse()
	out := map[string]bool{}
	for _, b := range fn.Blocks {
		for _, in := range b.Instrs {
			if c := tbCallee(in); c != nil {
				if _, ok := conv[c]; ok {
					out[FuncName(c)] = true
				}
			}
		}
	}
	return out
}

// tbDerivesFrom reports whether v is root or a copy of it through local cells.
func tbDerivesFrom(v ssa.Value, root ssa.Value) bool {
	return tbRootedAt(tbStrip(v), func(x ssa.Value) bool { return x == root })
}

func ruleConvGlue() *Rule {
	const id = "CONV-GLUE"
	return &Rule{
		ID: id,
		Text: "For each RPC X of {AppendEntries, RequestVote, InstallSnapshot}: (*transport).SendX converts its request parameter with makeProtoXRequest, passes the result to pb client method X and returns makeXResponse of that call's result; " +
			"the server method (*transport).X converts the incoming message with makeXRequest, calls the handler stored in its own field xHandler with that request and a fresh response, and returns makeProtoXResponse of that response; " +
			"RegisterXHandler stores its parameter into the same field; (*Raft).start registers (*Raft).X for X. All resolved through callee and field objects.",
		Floor: 18,
		Run: func(p *Program) []Obligation {
			var out []Obligation
			add := func(construct, pos, verdict, detail string) {
				out = append(out, Obligation{Rule: id, Construct: construct, Pos: pos, Verdict: verdict, Detail: detail})
			}
			start := p.Func("(*Raft).start")
			for _, row := range tbRPCTable {
				reqTo, reqFrom, respTo, respFrom := p.Func(row.ReqTo), p.Func(row.ReqFrom), p.Func(row.RespTo), p.Func(row.RespFrom)
				send, server, register := p.Func(row.Send), p.Func(row.Server), p.Func(row.Register)
				field := p.Field(row.HandlerField)
				if reqTo == nil || reqFrom == nil || respTo == nil || respFrom == nil || send == nil || server == nil || register == nil || field == nil {
					out = append(out, missing(id, "transport glue of RPC "+row.Name)...)
					continue
				}

				sendReq := tbParamLike(send, reqTo.Signature.Params().At(0).Type())
				serverReq := tbParamLike(server, reqFrom.Signature.Params().At(0).Type())
				handlerParam := tbParamLike(register, field.Type())

				// ---- client side
				pos := p.Pos(send.Pos())
				var reqCall *ssa.Call
				role := "request converter in " + row.Send
				calls := tbCallsTo(send, reqTo)
				others := p.tbConverterCalls(send)
				delete(others, row.ReqTo)
				delete(others, row.RespFrom)
				switch {
				case len(others) > 0:
					add(role, pos, Violated, row.Send+" calls the converter(s) "+tbJoin(tbSortedKeys(others))+" of another message; expected only "+row.ReqTo+" and "+row.RespFrom)
				case len(calls) != 1:
					add(role, pos, Undecided, fmt.Sprintf("%d calls to %s found, expected 1", len(calls), row.ReqTo))
				case sendReq == nil || !tbDerivesFrom(calls[0].Call.Args[0], sendReq):
					reqCall = calls[0]
					add(role, p.InstrPos(calls[0]), Violated, row.ReqTo+" is not applied to the request parameter of "+row.Send+": the caller's request is not what is sent")
				default:
					reqCall = calls[0]
					add(role, p.InstrPos(calls[0]), Discharged, row.ReqTo+" is applied to the request parameter")
				}

				role = "client method in " + row.Send
				var rpcCall *ssa.Call
				var invoked []string
				for _, b := range send.Blocks {
					for _, in := range b.Instrs {
						c, ok := in.(*ssa.Call)
						if !ok || !c.Common().IsInvoke() {
							continue
						}
						n := tbPtrElemNamed(c.Common().Value.Type())
						if n == nil || n.Obj().Pkg() == nil || n.Obj().Pkg().Path() != tbProtoPkgPath || n.Obj().Name() != "RaftClient" {
							continue
						}
						invoked = append(invoked, c.Common().Method.Name())
						if c.Common().Method.Name() == row.Name {
							rpcCall = c
						}
					}
				}
				switch {
				case len(invoked) == 1 && rpcCall != nil && reqCall != nil && len(rpcCall.Call.Args) >= 2 && tbDerivesFrom(rpcCall.Call.Args[1], reqCall):
					add(role, p.InstrPos(rpcCall), Discharged, "RaftClient."+row.Name+" is invoked with the converted request")
				case len(invoked) == 1 && rpcCall != nil && reqCall != nil:
					add(role, p.InstrPos(rpcCall), Violated, "RaftClient."+row.Name+" is not invoked with the result of "+row.ReqTo)
				case len(invoked) >= 1 && rpcCall == nil:
					add(role, pos, Violated, row.Send+" invokes RaftClient."+tbJoin(invoked)+" instead of RaftClient."+row.Name)
				default:
					add(role, pos, Undecided, fmt.Sprintf("expected exactly one call through protobuf.RaftClient, found %d (%s)", len(invoked), tbJoin(invoked)))
				}

				role = "response converter in " + row.Send
				calls = tbCallsTo(send, respFrom)
				switch {
				case len(calls) != 1:
					add(role, pos, Undecided, fmt.Sprintf("%d calls to %s found, expected 1", len(calls), row.RespFrom))
				case rpcCall == nil:
					add(role, p.InstrPos(calls[0]), Undecided, "the RPC call was not identified")
				default:
					fromRPC := tbRootedAt(tbStrip(calls[0].Call.Args[0]), func(x ssa.Value) bool {
						e, ok := x.(*ssa.Extract)
						return ok && e.Tuple == ssa.Value(rpcCall) && e.Index == 0
					})
					switch {
					case !fromRPC:
						add(role, p.InstrPos(calls[0]), Violated, row.RespFrom+" is not applied to the message returned by RaftClient."+row.Name)
					case !tbFlows(calls[0], tbIsReturn):
						add(role, p.InstrPos(calls[0]), Violated, "the converted response is not what "+row.Send+" returns on success")
					default:
						add(role, p.InstrPos(calls[0]), Discharged, row.RespFrom+" of the RPC result is returned")
					}
				}

				// ---- server side
				pos = p.Pos(server.Pos())
				role = "request converter in " + row.Server
				others = p.tbConverterCalls(server)
				delete(others, row.ReqFrom)
				delete(others, row.RespTo)
				calls = tbCallsTo(server, reqFrom)
				var inReq *ssa.Call
				switch {
				case len(others) > 0:
					add(role, pos, Violated, row.Server+" calls the converter(s) "+tbJoin(tbSortedKeys(others))+" of another message; expected only "+row.ReqFrom+" and "+row.RespTo)
				case len(calls) != 1:
					add(role, pos, Undecided, fmt.Sprintf("%d calls to %s found, expected 1", len(calls), row.ReqFrom))
				case serverReq == nil || !tbDerivesFrom(calls[0].Call.Args[0], serverReq):
					inReq = calls[0]
					add(role, p.InstrPos(calls[0]), Violated, row.ReqFrom+" is not applied to the incoming message of "+row.Server)
				default:
					inReq = calls[0]
					add(role, p.InstrPos(calls[0]), Discharged, row.ReqFrom+" is applied to the incoming message")
				}

				role = "handler call in " + row.Server
				var hcall *ssa.Call
				var wrongField *types.Var
				nDyn := 0
				for _, b := range server.Blocks {
					for _, in := range b.Instrs {
						c, ok := in.(*ssa.Call)
						if !ok || c.Common().IsInvoke() || c.Common().StaticCallee() != nil {
							continue
						}
						if _, isBuiltin := c.Common().Value.(*ssa.Builtin); isBuiltin {
							continue
						}
						nDyn++
						f, base := tbFieldLoad(c.Common().Value)
						if f == nil || !tbDerivesFrom(base, server.Params[0]) {
							continue
						}
						if f == field {
							hcall = c
						} else {
							wrongField = f
						}
					}
				}
				var respCell ssa.Value
				switch {
				case hcall == nil && wrongField != nil:
					add(role, pos, Violated, row.Server+" calls the handler stored in transport."+wrongField.Name()+" instead of "+row.HandlerField)
				case hcall == nil && nDyn == 0:
					add(role, pos, Violated, row.Server+" never calls the handler stored in "+row.HandlerField+": incoming "+row.Name+" RPCs are answered without reaching the node")
				case hcall == nil || nDyn != 1:
					add(role, pos, Undecided, fmt.Sprintf("expected exactly one call through %s, found %d dynamic call(s)", row.HandlerField, nDyn))
				case len(hcall.Call.Args) != 2:
					add(role, p.InstrPos(hcall), Undecided, "handler call does not have two arguments")
				case inReq == nil || !tbDerivesFromCell(hcall.Call.Args[0], inReq):
					add(role, p.InstrPos(hcall), Violated, "the handler is not called with the request converted from the incoming message")
				default:
					respCell = hcall.Call.Args[1]
					add(role, p.InstrPos(hcall), Discharged, "handler "+row.HandlerField+" is called with the converted request")
				}

				role = "response converter in " + row.Server
				calls = tbCallsTo(server, respTo)
				switch {
				case len(calls) != 1:
					add(role, pos, Undecided, fmt.Sprintf("%d calls to %s found, expected 1", len(calls), row.RespTo))
				case respCell == nil:
					add(role, p.InstrPos(calls[0]), Undecided, "the handler call was not identified")
				default:
					arg := tbStrip(calls[0].Call.Args[0])
					ld, ok := arg.(*ssa.UnOp)
					switch {
					case !ok || ld.X != respCell:
						add(role, p.InstrPos(calls[0]), Violated, row.RespTo+" is not applied to the response filled in by the handler")
					case !tbPrecedes(hcall, ld):
						add(role, p.InstrPos(calls[0]), Violated, "the response is read before the handler has filled it in")
					case !tbFlows(calls[0], tbIsReturn):
						add(role, p.InstrPos(calls[0]), Violated, "the converted response is not what "+row.Server+" returns on success")
					default:
						add(role, p.InstrPos(calls[0]), Discharged, row.RespTo+" of the handler-filled response is returned")
					}
				}

				// ---- registration
				role = "handler store in " + row.Register
				var stored, storedOther bool
				var storePos string
				for _, b := range register.Blocks {
					for _, in := range b.Instrs {
						st, f := storeField(in)
						if st == nil || f == nil || handlerParam == nil || tbStrip(st.Val) != handlerParam {
							continue
						}
						if f == field && b == register.Blocks[0] {
							stored = true
							storePos = p.InstrPos(in)
						} else if f != field {
							storedOther = true
						}
					}
				}
				switch {
				case stored:
					add(role, storePos, Discharged, "the handler parameter is stored into "+row.HandlerField)
				case storedOther:
					add(role, p.Pos(register.Pos()), Violated, row.Register+" stores its handler into a field other than "+row.HandlerField)
				default:
					add(role, p.Pos(register.Pos()), Violated, row.Register+" does not (unconditionally) store its handler parameter into "+row.HandlerField+": incoming "+row.Name+" RPCs would call a nil or stale handler")
				}

				role = "registration of " + row.RaftMethod + " in (*Raft).start"
				if start == nil {
					out = append(out, missing(id, "(*Raft).start")...)
					continue
				}
				found := false
				for _, b := range start.Blocks {
					for _, in := range b.Instrs {
						c, ok := in.(*ssa.Call)
						if !ok || !c.Common().IsInvoke() || ifaceOf(c.Common()) != "Transport" || c.Common().Method.Name() != row.IfaceReg {
							continue
						}
						found = true
						target := tbBoundMethod(c.Common().Args[0])
						want := p.Func(row.RaftMethod)
						switch {
						case target == nil:
							add(role, p.InstrPos(c), Undecided, "the registered handler is not a method value")
						case want == nil || target != want.Object():
							add(role, p.InstrPos(c), Violated, "Transport."+row.IfaceReg+" is given "+tbObjName(target)+" instead of "+row.RaftMethod)
						default:
							add(role, p.InstrPos(c), Discharged, "Transport."+row.IfaceReg+" receives the method value "+row.RaftMethod)
						}
					}
				}
				if !found {
					add(role, p.Pos(start.Pos()), Violated, "(*Raft).start does not call Transport."+row.IfaceReg+": incoming "+row.Name+" RPCs have no handler")
				}
			}
			return out
		},
	}
}

// tbParamLike returns the only parameter of fn whose type is identical to t (nil if none or several).
func tbParamLike(fn *ssa.Function, t types.Type) ssa.Value {
	var out ssa.Value
	for _, prm := range fn.Params {
		if types.Identical(prm.Type(), t) {
			if out != nil {
				return nil
			}
			out = prm
		}
	}
	return out
}

// tbDerivesFromCell reports whether ptr is a local cell whose content is root.
func tbDerivesFromCell(ptr ssa.Value, root ssa.Value) bool {
	al, ok := tbStrip(ptr).(*ssa.Alloc)
	if !ok {
		return false
	}
	v := tbSingleStore(al)
	return v != nil && tbDerivesFrom(v, root)
}

func tbObjName(o types.Object) string {
	if f, ok := o.(*types.Func); ok {
		return f.FullName()
	}
	return o.Name()
}

// tbBoundMethod returns the method of a method value (r.AppendEntries).
func tbBoundMethod(v ssa.Value) types.Object {
	mc, ok := tbStrip(v).(*ssa.MakeClosure)
	if !ok {
		return nil
	}
	fn, ok := mc.Fn.(*ssa.Function)
	if !ok || !strings.HasSuffix(fn.Name(), "$bound") {
		return nil
	}
	return fn.Object()
}

// ---------------------------------------------------------------------------------------------
// CODEC-PAIR

// tbFindCalls returns the calls in fn to pkgPath.name.
func tbFindCalls(fn *ssa.Function, pkgPath, name string) []*ssa.Call {
	var out []*ssa.Call
	for _, b := range fn.Blocks {
		for _, in := range b.Instrs {
			if c, ok := in.(*ssa.Call); ok && tbIsFunc(c.Common().StaticCallee(), pkgPath, name) {
				out = append(out, c)
			}
		}
	}
	return out
}

// tbInvokes returns the interface method calls recv.name(...) in fn.
func tbInvokes(fn *ssa.Function, name string) []*ssa.Call {
	var out []*ssa.Call
	for _, b := range fn.Blocks {
		for _, in := range b.Instrs {
			if c, ok := in.(*ssa.Call); ok && c.Common().IsInvoke() && c.Common().Method.Name() == name {
				out = append(out, c)
			}
		}
	}
	return out
}

// tbByteOrder names the byte order argument of binary.Read/Write ("binary.BigEndian").
func tbByteOrder(v ssa.Value) string {
	ld, ok := tbStrip(v).(*ssa.UnOp)
	if !ok {
		return ""
	}
	g, ok := ld.X.(*ssa.Global)
	if !ok || g.Pkg == nil || g.Pkg.Pkg.Path() != "encoding/binary" {
		return "" // an alias variable could hold either order: not recognised
	}
	return g.Pkg.Pkg.Name() + "." + g.Name()
}

type tbFrame struct {
	PrefixType types.Type
	Order      string
	OrderPos   string
	Problems   []string // unrecognised
	Breaches   []string // recognised and wrong
	Pos        string
	PBAlloc    ssa.Value // decode: the message Unmarshal fills; encode: the message Marshal reads
}

// tbEncodeFrame recognises: buf := proto.Marshal(msg); binary.Write(w, order, T(len(buf))); w.Write(buf).
func (p *Program) tbEncodeFrame(fn *ssa.Function, framed bool) *tbFrame {
	fr := &tbFrame{Pos: p.Pos(fn.Pos())}
	ms := tbFindCalls(fn, "google.golang.org/protobuf/proto", "Marshal")
	if len(ms) != 1 {
		fr.Problems = append(fr.Problems, fmt.Sprintf("%d calls to proto.Marshal, expected 1", len(ms)))
		return fr
	}
	marshal := ms[0]
	fr.PBAlloc = tbStrip(marshal.Call.Args[0])
	isBuf := func(v ssa.Value) bool {
		return tbRootedAt(tbStrip(v), func(x ssa.Value) bool {
			e, ok := x.(*ssa.Extract)
			return ok && e.Tuple == ssa.Value(marshal) && e.Index == 0
		})
	}
	if !framed {
		var buf ssa.Value
		for _, r := range *marshal.Referrers() {
			if e, ok := r.(*ssa.Extract); ok && e.Index == 0 {
				buf = e
			}
		}
		if buf == nil || !tbFlows(buf, tbIsReturn) {
			fr.Problems = append(fr.Problems, "the marshalled bytes were not seen to reach the return value")
		}
		return fr
	}
	ws := tbFindCalls(fn, "encoding/binary", "Write")
	if len(ws) != 1 {
		fr.Problems = append(fr.Problems, fmt.Sprintf("%d calls to binary.Write, expected 1", len(ws)))
		return fr
	}
	bw := ws[0]
	fr.Pos = p.InstrPos(bw)
	fr.Order = tbByteOrder(bw.Call.Args[1])
	if fr.Order == "" {
		fr.Problems = append(fr.Problems, "byte order argument of binary.Write is not a package-level byte order")
	}
	data := tbStrip(bw.Call.Args[2])
	fr.PrefixType = data.Type()
	inner := data
	if cv, ok := inner.(*ssa.Convert); ok {
		inner = cv.X
	}
	isLen := false
	if c, ok := inner.(*ssa.Call); ok {
		if b, ok := c.Common().Value.(*ssa.Builtin); ok && b.Name() == "len" && len(c.Call.Args) == 1 && isBuf(c.Call.Args[0]) {
			isLen = true
		}
	}
	if !isLen {
		fr.Problems = append(fr.Problems, "the value written by binary.Write is not len() of the marshalled message")
	}
	var payload *ssa.Call
	for _, c := range tbInvokes(fn, "Write") {
		if len(c.Call.Args) == 1 && isBuf(c.Call.Args[0]) {
			payload = c
		}
	}
	switch {
	case payload == nil:
		fr.Problems = append(fr.Problems, "no Write of the marshalled message found")
	case payload.Common().Value != bw.Call.Args[0]:
		fr.Breaches = append(fr.Breaches, "length prefix and payload are written to different writers")
	case !tbPrecedes(bw, payload):
		fr.Breaches = append(fr.Breaches, "the payload is not written after its length prefix")
	}
	return fr
}

// tbDecodeFrame recognises: binary.Read(r, order, &size); buf := make([]byte, size); io.ReadFull(r, buf); proto.Unmarshal(buf, msg).
func (p *Program) tbDecodeFrame(fn *ssa.Function, framed bool) *tbFrame {
	fr := &tbFrame{Pos: p.Pos(fn.Pos())}
	us := tbFindCalls(fn, "google.golang.org/protobuf/proto", "Unmarshal")
	if len(us) != 1 {
		fr.Problems = append(fr.Problems, fmt.Sprintf("%d calls to proto.Unmarshal, expected 1", len(us)))
		return fr
	}
	unmarshal := us[0]
	fr.PBAlloc = tbStrip(unmarshal.Call.Args[1])
	if !framed {
		if !tbRootedAt(tbStrip(unmarshal.Call.Args[0]), tbIsParam) {
			fr.Problems = append(fr.Problems, "proto.Unmarshal is not applied to the data parameter")
		}
		return fr
	}
	rs := tbFindCalls(fn, "encoding/binary", "Read")
	if len(rs) != 1 {
		fr.Problems = append(fr.Problems, fmt.Sprintf("%d calls to binary.Read, expected 1", len(rs)))
		return fr
	}
	br := rs[0]
	fr.Pos = p.InstrPos(br)
	fr.Order = tbByteOrder(br.Call.Args[1])
	if fr.Order == "" {
		fr.Problems = append(fr.Problems, "byte order argument of binary.Read is not a package-level byte order")
	}
	cell := tbStrip(br.Call.Args[2])
	pt, ok := cell.Type().Underlying().(*types.Pointer)
	if !ok {
		fr.Problems = append(fr.Problems, "binary.Read does not read into a pointer")
		return fr
	}
	fr.PrefixType = pt.Elem()
	buf, ok := tbStrip(unmarshal.Call.Args[0]).(*ssa.MakeSlice)
	if !ok {
		fr.Problems = append(fr.Problems, "the buffer passed to proto.Unmarshal is not a freshly made slice")
		return fr
	}
	n := buf.Len
	if cv, ok := n.(*ssa.Convert); ok {
		n = cv.X
	}
	if ld, ok := n.(*ssa.UnOp); !ok || ld.X != cell {
		fr.Problems = append(fr.Problems, "the buffer length is not the value read by binary.Read")
	}
	var full *ssa.Call
	for _, c := range tbFindCalls(fn, "io", "ReadFull") {
		if tbStrip(c.Call.Args[1]) == ssa.Value(buf) {
			full = c
		}
	}
	switch {
	case full == nil:
		fr.Problems = append(fr.Problems, "no io.ReadFull into the buffer found")
	case full.Call.Args[0] != br.Call.Args[0]:
		fr.Breaches = append(fr.Breaches, "length prefix and payload are read from different readers")
	case !tbPrecedes(br, full) || !tbPrecedes(full, unmarshal):
		fr.Breaches = append(fr.Breaches, "the order read-length, read-payload, unmarshal is not respected")
	}
	return fr
}

func ruleCodecPair() *Rule {
	const id = "CODEC-PAIR"
	return &Rule{
		ID: id,
		Text: "For encodeLogEntry/decodeLogEntry, encodePersistentState/decodePersistentState, encodeConfiguration/decodeConfiguration: every domain field is written to a message field and read back from the same one into the same domain field (LogEntry: all five fields including Offset), " +
			"the filled message is what is marshalled and the unmarshalled message is what is read; the length prefix is written and read with the same Go type and the same byte order, as len(payload), before the payload, on the same stream, and the decoder refuses no length the encoder writes (0 is the length of a message whose fields are all zero). " +
			"encodeMetadata/decodeMetadata marshal and unmarshal the same struct type with encoding/json and every field survives JSON.",
		Floor: 24,
		Run: func(p *Program) []Obligation {
			var out []Obligation
			inverse := p.tbConvInverse()
			for _, row := range tbCodecTable {
				enc, dec := p.Func(row.Enc), p.Func(row.Dec)
				dom, pbT := p.NamedType(row.Domain), p.tbLookupNamed(tbProtoPkgPath, row.PB)
				if enc == nil || dec == nil || tbStructOf(dom) == nil || tbStructOf(pbT) == nil {
					out = append(out, missing(id, fmt.Sprintf("codec pair %s/%s for %s", row.Enc, row.Dec, row.Domain))...)
					continue
				}
				pair := row.Enc + "/" + row.Dec
				ef, df := p.tbEncodeFrame(enc, row.Framed), p.tbDecodeFrame(dec, row.Framed)
				res := p.tbEvalPair(&tbPairSpec{
					Rule: id, Kind: "codec pair", Enc: enc, Dec: dec, Domain: dom, PB: pbT,
					EncSrcOK: tbParamRoot("the parameter of " + row.Enc),
					DecSrcOK: func(base ssa.Value) (bool, string) {
						if df.PBAlloc != nil && base == df.PBAlloc {
							return true, ""
						}
						return false, "the message the value is read from is not the one filled by proto.Unmarshal"
					},
					Inverse: inverse,
				})
				out = append(out, res.Obligations...)

				// payload: what is filled is what is marshalled; what is decoded is returned
				ob := Obligation{Rule: id, Construct: "payload of " + row.Enc, Pos: ef.Pos}
				bases := res.Enc.bases()
				switch {
				case len(ef.Breaches) > 0:
					ob.Verdict, ob.Detail = Violated, strings.Join(ef.Breaches, "; ")
				case len(ef.Problems) > 0:
					ob.Verdict, ob.Detail = Undecided, strings.Join(ef.Problems, "; ")
				case len(bases) != 1 || bases[0] != ef.PBAlloc:
					ob.Verdict, ob.Detail = Undecided, "the message filled from the "+row.Domain+" is not the one passed to proto.Marshal"
				default:
					ob.Verdict = Discharged
					ob.Detail = "the filled " + tbTypeName(pbT) + " is marshalled"
					if row.Framed {
						ob.Detail += "; its length is written first, then the bytes, to the same writer"
					} else {
						ob.Detail += " and the bytes are returned"
					}
				}
				out = append(out, ob)

				ob = Obligation{Rule: id, Construct: "payload of " + row.Dec, Pos: df.Pos}
				bases = res.Dec.bases()
				switch {
				case len(df.Breaches) > 0:
					ob.Verdict, ob.Detail = Violated, strings.Join(df.Breaches, "; ")
				case len(df.Problems) > 0:
					ob.Verdict, ob.Detail = Undecided, strings.Join(df.Problems, "; ")
				case len(bases) != 1 || !tbFlows(bases[0], tbIsReturn):
					ob.Verdict, ob.Detail = Undecided, "the "+row.Domain+" filled from the message was not seen to reach the return value"
				default:
					ob.Verdict = Discharged
					ob.Detail = "the " + row.Domain + " filled from the unmarshalled " + tbTypeName(pbT) + " is returned"
					if row.Framed {
						ob.Detail = "length is read first, exactly that many bytes are read from the same reader and unmarshalled; " + ob.Detail
					}
				}
				out = append(out, ob)

				if !row.Framed {
					continue
				}
				ob = Obligation{Rule: id, Construct: "length prefix type in codec pair " + pair, Pos: ef.Pos}
				switch {
				case ef.PrefixType == nil || df.PrefixType == nil:
					ob.Verdict, ob.Detail = Undecided, "length prefix not found on both sides: "+strings.Join(append(append([]string{}, ef.Problems...), df.Problems...), "; ")
				case !types.Identical(ef.PrefixType, df.PrefixType):
					ob.Verdict = Violated
					ob.Detail = fmt.Sprintf("%s writes the length as %s but %s reads it as %s: the frame boundary is misread", row.Enc, tbTypeName(ef.PrefixType), row.Dec, tbTypeName(df.PrefixType))
				case !tbFixedSize(ef.PrefixType):
					ob.Verdict, ob.Detail = Violated, "the length prefix type "+tbTypeName(ef.PrefixType)+" has no fixed size; encoding/binary rejects it"
				default:
					ob.Verdict, ob.Detail = Discharged, "written and read as "+tbTypeName(ef.PrefixType)
				}
				out = append(out, ob)

				out = append(out, p.tbZeroLengthAccepted(id, row.Dec, dec, pair))

				ob = Obligation{Rule: id, Construct: "length prefix byte order in codec pair " + pair, Pos: ef.Pos}
				switch {
				case ef.Order == "" || df.Order == "":
					ob.Verdict, ob.Detail = Undecided, "byte order not recognised on both sides"
				case ef.Order != df.Order:
					ob.Verdict = Violated
					ob.Detail = fmt.Sprintf("%s writes the length with %s but %s reads it with %s", row.Enc, ef.Order, row.Dec, df.Order)
				default:
					ob.Verdict, ob.Detail = Discharged, "written and read with "+ef.Order
				}
				out = append(out, ob)
			}
			out = append(out, p.tbJSONPair(id)...)
			return out
		},
	}
}

func tbFixedSize(t types.Type) bool {
	b, ok := t.Underlying().(*types.Basic)
	if !ok {
		return false
	}
	switch b.Kind() {
	case types.Int8, types.Int16, types.Int32, types.Int64, types.Uint8, types.Uint16, types.Uint32, types.Uint64, types.Bool, types.Float32, types.Float64:
		return true
	}
	return false
}

// tbJSONSafe reports whether a value of type t survives encoding/json unchanged.
func tbJSONSafe(t types.Type) bool {
	switch u := t.Underlying().(type) {
	case *types.Basic:
		return u.Info()&(types.IsInteger|types.IsString|types.IsBoolean) != 0
	case *types.Slice:
		if b, ok := u.Elem().Underlying().(*types.Basic); ok && b.Kind() == types.Uint8 {
			return true // base64
		}
		return tbJSONSafe(u.Elem())
	}
	return false
}

// tbJSONKey returns the key under which encoding/json stores field i ("" if it is skipped).
func tbJSONKey(st *types.Struct, i int) (key string, tagged bool) {
	f := st.Field(i)
	tag, ok := reflect.StructTag(st.Tag(i)).Lookup("json")
	if !ok {
		return f.Name(), false
	}
	name := strings.Split(tag, ",")[0]
	if tag == "-" {
		return "", true
	}
	if name == "" {
		return f.Name(), true
	}
	return name, true
}

func (p *Program) tbJSONPair(id string) []Obligation {
	const encN, decN, typeN = "encodeMetadata", "decodeMetadata", "SnapshotMetadata"
	enc, dec, meta := p.Func(encN), p.Func(decN), p.NamedType(typeN)
	st := tbStructOf(meta)
	if enc == nil || dec == nil || st == nil {
		return missing(id, "codec pair encodeMetadata/decodeMetadata for SnapshotMetadata")
	}
	var out []Obligation
	pair := encN + "/" + decN
	ob := Obligation{Rule: id, Construct: "payload of " + encN, Pos: p.Pos(enc.Pos())}
	ms := tbFindCalls(enc, "encoding/json", "Marshal")
	encOK := false
	switch {
	case len(ms) != 1:
		ob.Verdict, ob.Detail = Undecided, fmt.Sprintf("%d calls to json.Marshal, expected 1", len(ms))
	default:
		m := ms[0]
		ob.Pos = p.InstrPos(m)
		arg := tbStrip(m.Call.Args[0])
		n := tbPtrElemNamed(arg.Type())
		isBuf := func(v ssa.Value) bool {
			e, ok := tbStrip(v).(*ssa.Extract)
			return ok && e.Tuple == ssa.Value(m) && e.Index == 0
		}
		written := false
		for _, c := range tbInvokes(enc, "Write") {
			if len(c.Call.Args) == 1 && isBuf(c.Call.Args[0]) && tbIsParam(c.Common().Value) {
				written = true
			}
		}
		switch {
		case n == nil || n.Obj() != meta.Obj():
			ob.Verdict, ob.Detail = Violated, "json.Marshal is applied to a "+tbTypeName(arg.Type())+", not to the "+typeN
		case !tbRootedAt(arg, tbIsParam):
			ob.Verdict, ob.Detail = Violated, "json.Marshal is not applied to the metadata parameter"
		case !written:
			ob.Verdict, ob.Detail = Undecided, "the marshalled bytes were not seen to be written to the writer parameter"
		default:
			encOK = true
			ob.Verdict, ob.Detail = Discharged, "json.Marshal of the "+typeN+" parameter is written to the writer"
		}
	}
	out = append(out, ob)

	ob = Obligation{Rule: id, Construct: "payload of " + decN, Pos: p.Pos(dec.Pos())}
	us := tbFindCalls(dec, "encoding/json", "Unmarshal")
	decOK := false
	switch {
	case len(us) != 1:
		ob.Verdict, ob.Detail = Undecided, fmt.Sprintf("%d calls to json.Unmarshal, expected 1", len(us))
	default:
		u := us[0]
		ob.Pos = p.InstrPos(u)
		cell := tbStrip(u.Call.Args[1])
		n := tbPtrElemNamed(cell.Type())
		reads := tbFindCalls(dec, "io", "ReadAll")
		fromReader := len(reads) == 1 && tbIsParam(reads[0].Call.Args[0]) && tbRootedAt(tbStrip(u.Call.Args[0]), func(x ssa.Value) bool {
			e, ok := x.(*ssa.Extract)
			return ok && e.Tuple == ssa.Value(reads[0]) && e.Index == 0
		})
		switch {
		case n == nil || n.Obj() != meta.Obj():
			ob.Verdict, ob.Detail = Violated, "json.Unmarshal decodes into a "+tbTypeName(cell.Type())+", not into a "+typeN
		case !fromReader:
			ob.Verdict, ob.Detail = Undecided, "the bytes given to json.Unmarshal were not seen to be everything read from the reader parameter"
		case !tbFlows(cell, tbIsReturn):
			ob.Verdict, ob.Detail = Undecided, "the decoded "+typeN+" was not seen to reach the return value"
		default:
			decOK = true
			ob.Verdict, ob.Detail = Discharged, "everything read from the reader is unmarshalled into a "+typeN+", which is returned"
		}
	}
	out = append(out, ob)

	keys := map[string][]string{}
	for i := 0; i < st.NumFields(); i++ {
		if k, _ := tbJSONKey(st, i); k != "" {
			keys[strings.ToLower(k)] = append(keys[strings.ToLower(k)], st.Field(i).Name())
		}
	}
	for i := 0; i < st.NumFields(); i++ {
		f := st.Field(i)
		ob := Obligation{Rule: id, Construct: "field " + tbFieldLabel(meta, f) + " in codec pair " + pair, Pos: p.Pos(f.Pos())}
		key, _ := tbJSONKey(st, i)
		switch {
		case !f.Exported():
			ob.Verdict, ob.Detail = Violated, "field is unexported: encoding/json neither writes nor reads it"
		case key == "":
			ob.Verdict, ob.Detail = Violated, `field is tagged json:"-": it is not stored`
		case len(keys[strings.ToLower(key)]) > 1:
			ob.Verdict, ob.Detail = Violated, fmt.Sprintf("JSON key %q is shared by fields %s (encoding/json matches keys case-insensitively)", key, tbJoin(keys[strings.ToLower(key)]))
		case !tbJSONSafe(f.Type()):
			ob.Verdict, ob.Detail = Undecided, "type "+tbTypeName(f.Type())+" is not known to survive a JSON round trip exactly"
		case !encOK || !decOK:
			ob.Verdict, ob.Detail = Undecided, "the marshal/unmarshal calls of the pair were not both recognised"
		default:
			ob.Verdict, ob.Detail = Discharged, fmt.Sprintf("written and read under key %q as %s", key, tbTypeName(f.Type()))
		}
		out = append(out, ob)
	}
	return out
}

// ---------------------------------------------------------------------------------------------
// JSON-TAGS

func ruleJSONTags() *Rule {
	const id = "JSON-TAGS"
	return &Rule{
		ID:    id,
		Text:  "Every field of SnapshotMetadata is exported, carries a json tag with a name, and the names are pairwise distinct (compared case-insensitively, as encoding/json does when decoding).",
		Floor: 2,
		Run: func(p *Program) []Obligation {
			meta := p.NamedType("SnapshotMetadata")
			st := tbStructOf(meta)
			if st == nil {
				return missing(id, "struct SnapshotMetadata")
			}
			var out []Obligation
			owners := map[string][]string{}
			for i := 0; i < st.NumFields(); i++ {
				if k, tagged := tbJSONKey(st, i); tagged && k != "" {
					owners[strings.ToLower(k)] = append(owners[strings.ToLower(k)], st.Field(i).Name())
				}
			}
			for i := 0; i < st.NumFields(); i++ {
				f := st.Field(i)
				ob := Obligation{Rule: id, Construct: "json tag of " + tbFieldLabel(meta, f), Pos: p.Pos(f.Pos())}
				key, tagged := tbJSONKey(st, i)
				raw, _ := reflect.StructTag(st.Tag(i)).Lookup("json")
				switch {
				case !f.Exported():
					ob.Verdict, ob.Detail = Violated, "field is not exported: encoding/json ignores it"
				case !tagged:
					ob.Verdict, ob.Detail = Violated, "field has no json tag"
				case key == "":
					ob.Verdict, ob.Detail = Violated, `field is tagged json:"-" and is not stored`
				case strings.Split(raw, ",")[0] == "":
					ob.Verdict, ob.Detail = Violated, "json tag has no name"
				case len(owners[strings.ToLower(key)]) > 1:
					ob.Verdict, ob.Detail = Violated, fmt.Sprintf("json name %q is used by fields %s", key, tbJoin(owners[strings.ToLower(key)]))
				default:
					ob.Verdict, ob.Detail = Discharged, fmt.Sprintf("json name %q is unique", key)
				}
				out = append(out, ob)
			}
			return out
		},
	}
}

// tbZeroLengthAccepted: proto.Marshal of a message whose fields are all zero is empty, and the encoders write that
// record as a bare length 0 (term 0 with no vote; the log's first placeholder). A decoder that tests the length it has
// read and fails for 0 cannot read back what its encoder wrote.
func (p *Program) tbZeroLengthAccepted(id, decName string, dec *ssa.Function, pair string) Obligation {
	ob := Obligation{Rule: id, Construct: "length 0 is accepted by the decoder of codec pair " + pair, Pos: p.Pos(dec.Pos())}
	root := func(v ssa.Value) ssa.Value {
		for {
			switch x := v.(type) {
			case *ssa.Convert:
				v = x.X
				continue
			case *ssa.ChangeType:
				v = x.X
				continue
			case *ssa.UnOp:
				if x.Op == token.MUL {
					if al, ok := x.X.(*ssa.Alloc); ok {
						return al
					}
				}
			}
			return v
		}
	}
	var sizes []ssa.Value
	for _, b := range dec.Blocks {
		for _, in := range b.Instrs {
			if ms, ok := in.(*ssa.MakeSlice); ok {
				sizes = append(sizes, root(ms.Len))
			}
		}
	}
	if len(sizes) == 0 {
		ob.Verdict, ob.Detail = Undecided, "no buffer made from the length that was read"
		return ob
	}
	isSize := func(v ssa.Value) bool {
		r := root(v)
		for _, s := range sizes {
			if r == s {
				return true
			}
		}
		return false
	}
	for _, b := range dec.Blocks {
		iff, ok := b.Instrs[len(b.Instrs)-1].(*ssa.If)
		if !ok {
			continue
		}
		bo, ok := iff.Cond.(*ssa.BinOp)
		if !ok {
			continue
		}
		var k int64
		var op token.Token
		switch {
		case isSize(bo.X):
			c, isC := constIntOf(stripConv(bo.Y))
			if !isC {
				continue
			}
			k, op = c, bo.Op
		case isSize(bo.Y):
			c, isC := constIntOf(stripConv(bo.X))
			if !isC {
				continue
			}
			// k op size  ==  size op' k
			k = c
			op = map[token.Token]token.Token{token.LSS: token.GTR, token.GTR: token.LSS, token.LEQ: token.GEQ, token.GEQ: token.LEQ, token.EQL: token.EQL, token.NEQ: token.NEQ}[bo.Op]
		default:
			continue
		}
		var at0 bool
		switch op {
		case token.LSS:
			at0 = 0 < k
		case token.LEQ:
			at0 = 0 <= k
		case token.GTR:
			at0 = 0 > k
		case token.GEQ:
			at0 = 0 >= k
		case token.EQL:
			at0 = k == 0
		case token.NEQ:
			at0 = k != 0
		default:
			continue
		}
		arm := b.Succs[1]
		if at0 {
			arm = b.Succs[0]
		}
		if ret, ok := arm.Instrs[len(arm.Instrs)-1].(*ssa.Return); ok {
			if succ, known := successReturn(ret); known && !succ {
				ob.Verdict = Violated
				ob.Pos = p.InstrPos(iff)
				ob.Detail = decName + " fails when the length it has read is 0, and the encoder writes exactly that for a record whose fields are all zero (term 0 and no vote; the log's first placeholder): once such a record is on disk every reopen of the storage — every NewRaft over the directory — fails"
				return ob
			}
		}
	}
	ob.Verdict, ob.Detail = Discharged, "no test of the length that was read fails for 0"
	return ob
}
