package lint

import (
	"fmt"
	"sort"
	"strings"

	"golang.org/x/tools/go/ssa"
)

// electionVocab discovers, for one root, the terms the election rules talk about.
type electionVocab struct {
	quorum    []string // canonical strings of r.hasQuorum(x) calls
	prevote   string   // canonical value stored into RequestVoteRequest.Prevote
	reqTerm   string   // canonical term of the round's request Term (local request struct)
	granted   string   // canonical term of response.VoteGranted
	reachesBL bool     // becomeLeader is reachable
	stateVals map[string]bool
}

func (p *Program) discoverElection(root *ssa.Function) *electionVocab {
	v := &electionVocab{stateVals: map[string]bool{}}
	hasQuorum := p.Func("(*Raft).hasQuorum")
	becomeLeader := p.Func("(*Raft).becomeLeader")
	prevoteFld := p.Field("RequestVoteRequest.Prevote")
	termFld := p.Field("RequestVoteRequest.Term")
	grantedFld := p.Field("RequestVoteResponse.VoteGranted")
	seenQ := map[string]bool{}
	p.discover(root, func(a *Analysis, f *Frame, in ssa.Instruction) {
		if f.Fn == becomeLeader {
			v.reachesBL = true
		}
		if c, ok := in.(*ssa.Call); ok && c.Common().StaticCallee() == hasQuorum && hasQuorum != nil {
			s := p.Canon(f, c).S
			if !seenQ[s] {
				seenQ[s] = true
				v.quorum = append(v.quorum, s)
			}
		}
		if s, fld := storeField(in); s != nil {
			switch fld {
			case prevoteFld:
				v.prevote = p.Canon(f, s.Val).S
			case termFld:
				// the request's Term lives in the local struct: remember its location
				loc := p.Canon(f, s.Addr).S
				if strings.HasPrefix(loc, "&") {
					v.reqTerm = loc[1:]
				}
			}
		}
		switch x := in.(type) {
		case *ssa.Field:
			if fieldOf(x.X.Type(), x.Field) == grantedFld {
				v.granted = p.Canon(f, x).S
			}
		case *ssa.UnOp:
			if fa, ok := x.X.(*ssa.FieldAddr); ok && fieldOf(fa.X.Type(), fa.Field) == grantedFld {
				v.granted = p.Canon(f, x).S
			}
		}
	})
	sort.Strings(v.quorum)
	return v
}

// ruleLeaderEntry: C02 LEADER-ENTRY, C16 CAND-ENTRY / PRECAND, C09 ELECTION-VOTERS.
func ruleLeaderEntry() *Rule {
	const id = "STATE-TRANSITIONS"
	return &Rule{
		ID: id,
		Text: "Every store to Raft.state writes a declared constant, and per calling context: " +
			"→Leader only inside becomeLeader with state = Candidate and (a quorum of votes of a real, non-stale round: hasQuorum(votes) ∧ ¬prevote ∧ ¬(currentTerm > request.Term), or the single-voter cluster case); " +
			"→Candidate only from PreCandidate with hasQuorum(votes) of a non-stale round, or re-entering Candidate; " +
			"→PreCandidate only from Follower when this node is a voter (ELECTION-VOTERS); the term increment of a candidacy only with state = Candidate and this node a voter; " +
			"becomePreCandidate writes neither term nor vote (PRECAND, checked through TERM-VOTE's writer list).",
		Floor: 5,
		Run: func(p *Program) []Obligation {
			stateFld := p.Field("Raft.state")
			curTerm := p.Field("Raft.currentTerm")
			if stateFld == nil || curTerm == nil {
				return missing(id, "Raft.state")
			}
			var out []Obligation
			for _, root := range p.Roots() {
				if !p.writesAny(root, stateFld) {
					continue
				}
				out = append(out, stateTransitionsRoot(p, id, root)...)
			}
			return out
		},
	}
}

func stateTransitionsRoot(p *Program, id string, root *ssa.Function) []Obligation {
	stateFld := p.Field("Raft.state")
	voc := p.discoverElection(root)
	stateAtom := p.StateAtom()
	atoms := []*Atom{stateAtom,
		BoolAtom("singleVoterCluster", "r.isSingleServerCluster()"),
		BoolAtom("selfIsVoter", "r.configuration.IsVoter[r.id]"),
	}
	iState, iSingle, iSelf := 0, 1, 2
	// a won prevote that is still waiting for its election to start: the node is in the Candidate state of a term in
	// which it may have run (and left) an election before
	iLimbo := len(atoms)
	atoms = append(atoms, BoolAtom("prevoteWonPending", "r.prevoteWon"))
	var iQ []int
	for k, q := range voc.quorum {
		if k >= 3 {
			break
		}
		iQ = append(iQ, len(atoms))
		atoms = append(atoms, BoolAtom(fmt.Sprintf("quorum%d", k+1), q))
	}
	iPre, iStale := -1, -1
	if voc.prevote != "" {
		iPre = len(atoms)
		atoms = append(atoms, BoolAtom("prevoteRound", voc.prevote))
	}
	if voc.reqTerm != "" {
		iStale = len(atoms)
		atoms = append(atoms, CmpAtom("curTerm?reqTerm", "r.currentTerm", voc.reqTerm))
	}
	sp := NewSpace(atoms...)
	a := NewAnalysis(p, sp)
	vals, labels := p.stateVals()
	nameOf := func(v int64) string {
		for i, x := range vals {
			if x == v {
				return labels[i]
			}
		}
		return fmt.Sprintf("State(%d)", v)
	}
	a.Hook = func(a *Analysis, f *Frame, in ssa.Instruction, st State) State {
		s, fld := storeField(in)
		if s == nil {
			return st
		}
		if fld == stateFld {
			c, ok := s.Val.(*ssa.Const)
			target := "non-constant"
			if ok {
				if iv, ok := constInt(c); ok {
					target = nameOf(iv)
				}
			}
			n := instrOrdinal(in, func(x ssa.Instruction) bool { _, fl := storeField(x); return fl == stateFld })
			o := a.Observe("store Raft.state := "+target+ordSuffix(n)+" in "+chainKey(f), f, in, st)
			o.Extra["target"] = target
			o.Extra["fn"] = FuncName(f.Fn)
			return st
		}
		if fld == p.Field("Raft.currentTerm") && isLoadPlusOne(p, s.Val, "Raft.currentTerm") {
			o := a.Observe("term increment in "+chainKey(f), f, in, st)
			o.Extra["target"] = "increment"
		}
		return st
	}
	a.Run(root, nil)
	L, F, PC, C := enumIdx(stateAtom, "Leader"), enumIdx(stateAtom, "Follower"), enumIdx(stateAtom, "PreCandidate"), enumIdx(stateAtom, "Candidate")
	SD := enumIdx(stateAtom, "Shutdown")
	quorumRound := func(pt int, needReal bool) bool {
		q := false
		for _, i := range iQ {
			if sp.Val(pt, i) == 1 {
				q = true
			}
		}
		if !q {
			return false
		}
		if iStale >= 0 && sp.Val(pt, iStale) == GT {
			return false
		}
		if needReal {
			if iPre < 0 || sp.Val(pt, iPre) != 0 {
				return false
			}
		}
		return true
	}
	var out []Obligation
	for _, o := range a.SortedObs() {
		target := o.Extra["target"]
		var allowed func(pt int) bool
		what := ""
		switch target {
		case "Leader":
			if o.Extra["fn"] != "(*Raft).becomeLeader" {
				out = append(out, Obligation{Rule: id, Construct: o.Key, Pos: o.Pos, Verdict: Violated,
					Detail: "state := Leader outside becomeLeader: leadership must be entered only through becomeLeader (fresh operation manager, no-op entry)"})
				continue
			}
			allowed = func(pt int) bool {
				return sp.Val(pt, iState) == C && (sp.Val(pt, iSingle) == 1 || (quorumRound(pt, true) && sp.Val(pt, iLimbo) == 0))
			}
			what = "leader entry only as Candidate with a quorum of real votes of the current round, and not while a won prevote waits for its election to start (the Candidate state of a term whose earlier election was left), or as the single voter"
		case "Candidate":
			allowed = func(pt int) bool {
				s := sp.Val(pt, iState)
				return s == C || (s == PC && (quorumRound(pt, false) || sp.Val(pt, iSingle) == 1))
			}
			what = "candidate entry only from PreCandidate with a prevote quorum (or re-entry)"
		case "PreCandidate":
			// (from Candidate: a candidate whose election timed out asks for prevotes again, PREVOTE-TOKEN)
			allowed = func(pt int) bool {
				return (sp.Val(pt, iState) == F || sp.Val(pt, iState) == C) && sp.Val(pt, iSelf) == 1
			}
			what = "pre-candidacy only from Follower (or from a Candidate whose election timed out) and only for a voter"
		case "increment":
			allowed = func(pt int) bool {
				s := sp.Val(pt, iState)
				return (s == C || s == PC) && sp.Val(pt, iSelf) == 1 && s != L
			}
			what = "term increment only during a candidacy of a voter"
		case "Follower":
			// Leaving Shutdown is start()'s business alone: it opens the log and starts the loops. A node that is being
			// stopped (Stop() has set Shutdown and released the mutex to wait for the loops) must not be taken back to
			// Follower by a handler or by the reply path of a request that was in flight: Stop() would then close the log
			// under a node that claims to run, and a later Start() would do nothing (state != Shutdown).
			if o.Extra["fn"] == "(*Raft).start" {
				allowed = func(pt int) bool { return sp.Val(pt, iState) == SD }
				what = "a node is started only from Shutdown"
			} else {
				allowed = func(pt int) bool { return sp.Val(pt, iState) != SD }
				what = "only start() takes a node out of Shutdown: nothing else may set Follower on a node that is stopped or being stopped"
			}
		case "Shutdown":
			out = append(out, Obligation{Rule: id, Construct: o.Key, Pos: o.Pos, Verdict: Discharged, Detail: "transition to " + target + " is always allowed", Facts: []string{"context: " + o.Chain}})
			continue
		default:
			out = append(out, Obligation{Rule: id, Construct: o.Key, Pos: o.Pos, Verdict: Undecided, Detail: "state written with " + target})
			continue
		}
		out = append(out, evalObs(a, id, []*Observation{o}, func(_ *Observation, pt int) bool { return allowed(pt) }, nil, what)...)
	}
	return out
}

// ruleCountVotes: C02/C09 COUNT-VOTES.
func ruleCountVotes() *Rule {
	const id = "COUNT-VOTES"
	return &Rule{
		ID: id,
		Text: "In sendRequestVote the per-round vote counter is incremented only when, after the unlock window, response.VoteGranted ∧ ¬(currentTerm > request.Term) ∧ the responder is a voter of the configuration in force; " +
			"the counter is a fresh variable per call of sendRequestVoteToPeers, initialised to 1 (the self vote) and handed only to that round's goroutines.",
		Floor: 2,
		Run: func(p *Program) []Obligation {
			root := p.Func("(*Raft).sendRequestVote")
			if root == nil {
				return missing(id, "(*Raft).sendRequestVote")
			}
			voc := p.discoverElection(root)
			if voc.granted == "" || voc.reqTerm == "" {
				return missing(id, "response.VoteGranted / request.Term in (*Raft).sendRequestVote")
			}
			sp := NewSpace(
				BoolAtom("voteGranted", voc.granted),
				CmpAtom("curTerm?reqTerm", "r.currentTerm", voc.reqTerm),
				BoolAtom("responderIsVoter", "r.configuration.IsVoter[p0]"),
			)
			a := NewAnalysis(p, sp)
			a.Hook = func(a *Analysis, f *Frame, in ssa.Instruction, st State) State {
				s, ok := in.(*ssa.Store)
				if !ok {
					return st
				}
				par, ok := s.Addr.(*ssa.Parameter)
				if !ok || f.Parent != nil {
					return st
				}
				n := instrOrdinal(in, func(x ssa.Instruction) bool {
					sx, ok := x.(*ssa.Store)
					return ok && sx.Addr == par
				})
				a.Observe("increment of vote counter *"+par.Name()+ordSuffix(n)+" in "+chainKey(f), f, in, st)
				return st
			}
			a.Run(root, nil)
			out := evalObs(a, id, a.SortedObs(), func(o *Observation, pt int) bool {
				return sp.Val(pt, 0) == 1 && sp.Val(pt, 1) != GT && sp.Val(pt, 2) == 1
			}, nil, "vote counted only if granted, not stale, and from a current voter")
			out = append(out, freshCounter(p, id, "(*Raft).sendRequestVoteToPeers", "(*Raft).sendRequestVote", 2)...)
			out = append(out, counterNotForwarded(p, id, "(*Raft).sendRequestVote", 2)...)
			return out
		},
	}
}

// freshCounter checks that the pointer argument argIdx (0-based, receiver excluded) of every
// `go target(...)` in spawner is a local variable of spawner initialised once to the constant 1.
func freshCounter(p *Program, rule, spawner, target string, argIdx int) []Obligation {
	return freshCounterMode(p, rule, spawner, target, argIdx, false)
}

// freshCounterMode: with selfConditional the counter must start at 1 only if this node is a voter (0 otherwise): the
// function is reachable for a leader that is not a voter. Without it the constant 1 is demanded (the election path is
// entered by voters only, ELECTION-VOTERS).
func freshCounterMode(p *Program, rule, spawner, target string, argIdx int, selfConditional bool) []Obligation {
	sp := p.Func(spawner)
	tg := p.Func(target)
	if sp == nil || tg == nil {
		return missing(rule, spawner+" / "+target)
	}
	var out []Obligation
	n := 0
	for _, b := range sp.Blocks {
		for _, in := range b.Instrs {
			g, ok := in.(*ssa.Go)
			if !ok || g.Common().StaticCallee() != tg {
				continue
			}
			n++
			ob := Obligation{Rule: rule, Construct: fmt.Sprintf("round counter passed to go %s%s in %s", target, ordSuffix(n), spawner), Pos: p.InstrPos(in)}
			arg := g.Common().Args[argIdx+1]
			al, ok := arg.(*ssa.Alloc)
			if !ok || al.Parent() != sp {
				ob.Verdict = Violated
				ob.Detail = "the counter handed to the round's goroutines is not a variable local to this call (votes of different rounds would accumulate)"
				out = append(out, ob)
				continue
			}
			stores, bad := 0, ""
			var selfTrue []*ssa.BasicBlock
			if selfConditional {
				selfTrue = selfVoterBlocks(p, NewRootFrame(sp), sp)
			}
			for _, r := range *al.Referrers() {
				switch r := r.(type) {
				case *ssa.Store:
					if r.Addr == al {
						stores++
						c, ok := r.Val.(*ssa.Const)
						v, ok2 := constInt(c)
						switch {
						case !selfConditional:
							if !ok || !ok2 || v != 1 {
								bad = "initial value is not the constant 1 (the node's own vote/acknowledgement)"
							}
						case !ok || !ok2 || (v != 0 && v != 1):
							bad = "the counter is initialised with something other than 0 or 1"
						case v == 1 && !dominatedByAny(selfTrue, r.Block()):
							bad = "the round counter starts at 1 — the leader's own acknowledgement — whether or not the leader is a voter: a leader demoted to non-voter (AddServer(self, false)) confirms its leadership, renews its lease and verifies reads with one voter's reply fewer than a quorum"
						case v == 1:
							stores-- // the conditional 1 comes on top of the initial 0
						}
						if r.Block() != al.Block() {
							// initialised in a different block than the declaration: could be inside a loop
						}
					}
				case *ssa.Go:
					if r.Common().StaticCallee() != tg {
						bad = "counter escapes to another goroutine target"
					}
				case *ssa.DebugRef:
				default:
					bad = fmt.Sprintf("counter is also used by %T at %s", r, p.InstrPos(r))
				}
			}
			// the declaration must not be hoisted out of the function (it is an Alloc of this function)
			// and the go statement must be dominated by the declaration
			if stores != 1 && bad == "" {
				bad = fmt.Sprintf("counter has %d stores in %s, expected exactly the initialisation", stores, spawner)
			}
			if bad != "" {
				ob.Verdict, ob.Detail = Violated, bad
			} else {
				ob.Verdict, ob.Detail = Discharged, "fresh local initialised to 1, handed only to this round's goroutines"
				if selfConditional {
					ob.Detail = "fresh local initialised to 1 if this node is a voter and 0 otherwise, handed only to this round's goroutines"
				}
			}
			out = append(out, ob)
		}
	}
	if n == 0 {
		return missing(rule, "go "+target+" in "+spawner)
	}
	return out
}

// ruleLeaderID: C02 LEADER-ID.
func ruleLeaderID() *Rule {
	const id = "LEADER-ID"
	return &Rule{
		ID:    id,
		Text:  "Every AppendEntriesRequest / InstallSnapshotRequest built by the library carries LeaderID = r.id and Term = r.currentTerm, read while state = Leader in the same critical section.",
		Floor: 4,
		Run: func(p *Program) []Obligation {
			fields := map[string][2]string{}
			for _, t := range []string{"AppendEntriesRequest", "InstallSnapshotRequest"} {
				fields[t] = [2]string{"LeaderID", "Term"}
			}
			var out []Obligation
			for _, root := range p.Roots() {
				// only roots that build such requests
				builds := false
				p.discover(root, func(a *Analysis, f *Frame, in ssa.Instruction) {
					if s, fld := storeField(in); s != nil && fld != nil {
						for t := range fields {
							if fld == p.Field(t+".LeaderID") {
								builds = true
							}
						}
					}
				})
				if !builds {
					continue
				}
				stateAtom := p.StateAtom()
				sp := NewSpace(stateAtom)
				a := NewAnalysis(p, sp)
				a.Hook = func(a *Analysis, f *Frame, in ssa.Instruction, st State) State {
					s, fld := storeField(in)
					if s == nil || fld == nil {
						return st
					}
					if rv := f.Fn.Signature.Recv(); rv == nil || !isPtrToNamed(rv.Type(), "Raft") {
						return st // decoding a received request is not building one
					}
					for t, fs := range fields {
						for k, fn := range fs {
							if fld == p.Field(t+"."+fn) {
								o := a.Observe("field "+t+"."+fn+" of request built in "+chainKey(f), f, in, st)
								o.Extra["value"] = p.Canon(f, s.Val).S
								o.Extra["want"] = []string{"r.id", "r.currentTerm"}[k]
							}
						}
					}
					return st
				}
				a.Run(root, nil)
				L := enumIdx(stateAtom, "Leader")
				for _, o := range a.SortedObs() {
					ob := Obligation{Rule: id, Construct: o.Key, Pos: o.Pos, Facts: []string{"context: " + o.Chain, "value: " + o.Extra["value"]}}
					bad := sp.Where(o.State, func(pt int) bool { return sp.Val(pt, 0) != L })
					switch {
					case o.Extra["value"] != o.Extra["want"]:
						ob.Verdict = Violated
						ob.Detail = "request field is " + o.Extra["value"] + ", must be " + o.Extra["want"]
					case !bad.IsEmpty():
						ob.Verdict = Violated
						ob.Detail = "request built while the node may not be leader: " + strings.Join(sp.Project(bad, 0), " | ")
					default:
						ob.Verdict = Discharged
						ob.Detail = "= " + o.Extra["want"] + ", state = Leader"
					}
					out = append(out, ob)
				}
			}
			return out
		},
	}
}

// counterNotForwarded checks that the per-round counter parameter (0-based index argIdx, receiver
// excluded) of fn is only read, incremented, compared with nil or dropped — never handed on to another
// call or goroutine: a reply handler that forwards its round's counter lets one peer be counted twice.
func counterNotForwarded(p *Program, rule, fnName string, argIdx int) []Obligation {
	fn := p.Func(fnName)
	if fn == nil || argIdx+1 >= len(fn.Params) {
		return missing(rule, fnName)
	}
	par := fn.Params[argIdx+1]
	ob := Obligation{Rule: rule, Construct: "round counter *" + par.Name() + " is not handed on by " + fnName, Pos: p.Pos(fn.Pos())}
	seen := map[ssa.Value]bool{}
	var bad []string
	var walk func(v ssa.Value)
	walk = func(v ssa.Value) {
		if seen[v] || v.Referrers() == nil {
			return
		}
		seen[v] = true
		for _, r := range *v.Referrers() {
			switch x := r.(type) {
			case *ssa.UnOp, *ssa.BinOp, *ssa.DebugRef, *ssa.If:
			case *ssa.Store:
				if x.Val == v {
					bad = append(bad, "stored at "+p.InstrPos(x))
				}
			case *ssa.Phi:
				walk(x)
			case ssa.CallInstruction:
				bad = append(bad, "passed to "+x.Common().String()+" at "+p.InstrPos(x))
			default:
				bad = append(bad, fmt.Sprintf("used by %T at %s", r, p.InstrPos(r)))
			}
		}
	}
	walk(par)
	if len(bad) > 0 {
		ob.Verdict = Violated
		ob.Detail = "the counter of this round escapes from the reply handler: a second reply of the same peer (a retry, a forwarded request) is counted in the same round, so the count is no longer a number of distinct voters"
		ob.Facts = bad
	} else {
		ob.Verdict, ob.Detail = Discharged, "only loaded, incremented and compared with nil"
	}
	return []Obligation{ob}
}

// ruleRoundKind: C02/C16 ROUND-KIND and request-term provenance of vote rounds.
func ruleRoundKind() *Rule {
	const id = "ROUND-KIND"
	return &Rule{
		ID: id,
		Text: "A round of vote requests is a prevote round exactly when it is started from the PreCandidate state (the flag handed to the round's goroutines is r.state == PreCandidate); " +
			"the request of a real round carries Term = currentTerm (which becomeCandidate has just incremented and self-voted in), the request of a prevote round carries currentTerm+1 in the message only; " +
			"the Prevote field of the request is that flag. A real-vote round started from PreCandidate would collect real votes for a term the node has neither entered nor voted in.",
		Floor: 3,
		Run: func(p *Program) []Obligation {
			var out []Obligation
			spawner := p.Func("(*Raft).sendRequestVoteToPeers")
			target := p.Func("(*Raft).sendRequestVote")
			if spawner == nil || target == nil {
				return missing(id, "(*Raft).sendRequestVoteToPeers / (*Raft).sendRequestVote")
			}
			pc, _ := p.ConstVal("PreCandidate")
			fr := NewRootFrame(spawner)
			n := 0
			for _, b := range spawner.Blocks {
				for _, in := range b.Instrs {
					g, ok := in.(*ssa.Go)
					if !ok || g.Common().StaticCallee() != target {
						continue
					}
					n++
					ob := Obligation{Rule: id, Construct: "prevote flag of the round spawned in (*Raft).sendRequestVoteToPeers" + ordSuffix(n), Pos: p.InstrPos(in)}
					if len(g.Common().Args) < 5 {
						ob.Verdict, ob.Detail = Undecided, "the signature of sendRequestVote changed (no prevote flag in fifth position): the kind of the round cannot be identified"
						out = append(out, ob)
						continue
					}
					flag := p.Canon(fr, g.Common().Args[4]).S
					if flag == fmt.Sprintf("(%d == r.state)", pc) {
						ob.Verdict, ob.Detail = Discharged, "flag = (r.state == PreCandidate)"
					} else {
						ob.Verdict, ob.Detail = Violated, "the round's prevote flag is "+flag+", must be r.state == PreCandidate: otherwise a pre-candidate collects real votes for its current term (which it may already have voted in for someone else) or a candidate's real election is treated as a prevote"
					}
					out = append(out, ob)
				}
			}
			if n == 0 {
				out = append(out, missing(id, "go sendRequestVote in sendRequestVoteToPeers")...)
			}
			// request term in sendRequestVote, latched at the unlock before the send
			voc := p.discoverElection(target)
			if voc.reqTerm == "" || voc.prevote == "" {
				return append(out, missing(id, "request.Term / request.Prevote in (*Raft).sendRequestVote")...)
			}
			latch := GhostAtom("termOkAtLastUnlock", "no", "yes")
			sp := NewSpace(CmpAtom("reqTerm?curTerm", voc.reqTerm, "r.currentTerm"), BoolAtom("prevoteRound", voc.prevote), latch)
			a := NewAnalysis(p, sp)
			a.Hook = func(a *Analysis, f *Frame, in ssa.Instruction, st State) State {
				if ci, ok := in.(ssa.CallInstruction); ok {
					if _, isDefer := in.(*ssa.Defer); isDefer && !a.AtRunDefers {
						return st
					}
					if op, recv := isMutexOp(ci.Common()); op == "Mutex.Unlock" && isNodeMutex(recv) {
						return sp.Map(st, 2, func(pt, old int) uint32 {
							if (sp.Val(pt, 1) == 1 && sp.Val(pt, 0) == GT) || (sp.Val(pt, 1) == 0 && sp.Val(pt, 0) == EQ) {
								return 1 << 1
							}
							return 1 << 0
						})
					}
				}
				if iface, m, _ := invokeOf(in); iface == "Transport" && m == "SendRequestVote" {
					a.Observe("term of the vote request sent in "+chainKey(f), f, in, st)
				}
				return st
			}
			a.RunFrame(NewRootFrame(target), sp.Filter(sp.Top(), 2, 1))
			out = append(out, evalObs(a, id, a.SortedObs(), func(_ *Observation, pt int) bool { return sp.Val(pt, 2) == 1 }, []int{2},
				"when the mutex is released for the send, a real request carries exactly currentTerm and a prevote request a larger term")...)
			// Prevote field = the flag parameter
			ob := Obligation{Rule: id, Construct: "field RequestVoteRequest.Prevote of the request built in (*Raft).sendRequestVote", Pos: p.Pos(target.Pos())}
			if voc.prevote == "p3" {
				ob.Verdict, ob.Detail = Discharged, "= the round's prevote flag"
			} else {
				ob.Verdict, ob.Detail = Violated, "request.Prevote is "+voc.prevote+", must be the round's prevote flag"
			}
			return append(out, ob)
		},
	}
}

// ruleTermStepdown: C02 TERM-STEPDOWN and SELF-VOTE.
func ruleTermStepdown() *Rule {
	const id = "TERM-STEPDOWN"
	return &Rule{
		ID: id,
		Text: "(TERM-STEPDOWN) when currentTerm is raised to a value taken from a message while the node may be Leader, the node leaves the leader state (state := Follower) before the critical section ends — a leader must never carry its leadership into a term it was not elected in; " +
			"(SELF-VOTE) a term increment (candidacy) is accompanied, before the critical section ends, by votedFor := r.id, so that the candidate cannot give the vote it counts for itself to someone else.",
		Floor: 4,
		Run: func(p *Program) []Obligation {
			curTerm, votedFor, stateFld := p.Field("Raft.currentTerm"), p.Field("Raft.votedFor"), p.Field("Raft.state")
			if curTerm == nil || votedFor == nil || stateFld == nil {
				return missing(id, "Raft.currentTerm / votedFor / state")
			}
			var out []Obligation
			fol, _ := p.ConstVal("Follower")
			for _, root := range p.Roots() {
				if !p.writesAny(root, curTerm) {
					continue
				}
				var sites []string
				key := func(f *Frame, in ssa.Instruction) string {
					n := instrOrdinal(in, func(x ssa.Instruction) bool { _, fl := storeField(x); return fl == curTerm })
					return "store Raft.currentTerm" + ordSuffix(n) + " in " + chainKey(f)
				}
				p.discover(root, func(a *Analysis, f *Frame, in ssa.Instruction) {
					if s, fld := storeField(in); s != nil && fld == curTerm && !fromStateStorage(s.Val, 0) {
						sites = append(sites, key(f, in))
					}
				})
				if len(sites) == 0 {
					continue
				}
				stateAtom := p.StateAtom()
				labels := append([]string{"no"}, sites...)
				sp := NewSpace(stateAtom, GhostAtom("stepDownOwedBy", labels...), GhostAtom("selfVoteOwedBy", labels...), GhostAtom("selfVotedInSection", "no", "yes"))
				a := NewAnalysis(p, sp)
				L := enumIdx(stateAtom, "Leader")
				pos := map[int]string{}
				kind := map[int]string{}
				a.Hook = func(a *Analysis, f *Frame, in ssa.Instruction, st State) State {
					if s, fld := storeField(in); s != nil {
						switch fld {
						case curTerm:
							if fromStateStorage(s.Val, 0) {
								return st
							}
							k := key(f, in)
							si := 0
							for i, x := range sites {
								if x == k {
									si = i + 1
								}
							}
							pos[si] = p.InstrPos(in)
							if isLoadPlusOne(p, s.Val, "Raft.currentTerm") {
								kind[si] = "increment"
								// the self vote may precede or follow the increment within the critical section
								return sp.Map(st, 2, func(pt, old int) uint32 {
									if sp.Val(pt, 3) == 1 {
										return 1 << uint(old)
									}
									return 1 << uint(si)
								})
							}
							kind[si] = "assign"
							return sp.Map(st, 1, func(pt, old int) uint32 {
								if sp.Val(pt, 0) == L {
									return 1 << uint(si)
								}
								return 1 << uint(old)
							})
						case stateFld:
							if c, ok := s.Val.(*ssa.Const); ok {
								if v, ok := constInt(c); ok && v == fol {
									return sp.Assign(st, 1, 0)
								}
							}
						case votedFor:
							if p.Canon(f, s.Val).S == "r.id" {
								return sp.Assign(sp.Assign(st, 2, 0), 3, 1)
							}
							return sp.Assign(st, 3, 0)
						}
						return st
					}
					if what, ok := a.isSectionEnd(in); ok {
						n := instrOrdinal(in, func(x ssa.Instruction) bool { _, ok := a.isSectionEndStatic(x); return ok })
						a.Observe("END "+what+ordSuffix(n)+" in "+chainKey(f), f, in, st)
						return sp.Assign(sp.Assign(sp.Assign(st, 1, 0), 2, 0), 3, 0)
					}
					return st
				}
				a.RunFrame(NewRootFrame(root), sp.Filter(sp.Filter(sp.Filter(sp.Top(), 1, 1), 2, 1), 3, 1))
				owedSD, owedSV := map[int][]string{}, map[int][]string{}
				for _, o := range a.SortedObs() {
					for i := 1; i <= len(sites); i++ {
						if !sp.Filter(o.State, 1, 1<<uint(i)).IsEmpty() {
							owedSD[i] = append(owedSD[i], strings.TrimPrefix(o.Key, "END ")+" ("+o.Pos+")")
						}
						if !sp.Filter(o.State, 2, 1<<uint(i)).IsEmpty() {
							owedSV[i] = append(owedSV[i], strings.TrimPrefix(o.Key, "END ")+" ("+o.Pos+")")
						}
					}
				}
				for i, s := range sites {
					si := i + 1
					if kind[si] == "" {
						continue
					}
					ob := Obligation{Rule: id, Pos: pos[si]}
					if kind[si] == "increment" {
						ob.Construct = "SELF-VOTE " + s
						if len(owedSV[si]) > 0 {
							ob.Verdict = Violated
							ob.Detail = "the term is incremented for a candidacy but votedFor := r.id does not follow in the same critical section: the candidate counts its own vote and can still grant the same term's vote to another candidate"
							ob.Facts = owedSV[si]
						} else {
							ob.Verdict, ob.Detail = Discharged, "votedFor := r.id follows in the same critical section"
						}
					} else {
						ob.Construct = "TERM-STEPDOWN " + s
						if len(owedSD[si]) > 0 {
							ob.Verdict = Violated
							ob.Detail = "currentTerm is set from a message while the node may be Leader and state := Follower does not follow before the critical section ends: the node would act as leader of a term it was not elected in"
							ob.Facts = owedSD[si]
						} else {
							ob.Verdict, ob.Detail = Discharged, "a leader that adopts a term from a message becomes a follower in the same critical section (or cannot be leader here)"
						}
					}
					out = append(out, ob)
				}
			}
			return dedupe(out)
		},
	}
}
