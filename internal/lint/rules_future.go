package lint

import (
	"fmt"
	"go/types"
	"strings"

	"golang.org/x/tools/go/ssa"
)

// isRespondCall reports whether in calls an instantiation of respond[T] and returns its arguments.
func isRespondCall(in ssa.Instruction) (*ssa.CallCommon, bool) {
	c, ok := in.(*ssa.Call)
	if !ok {
		return nil, false
	}
	callee := c.Common().StaticCallee()
	if callee == nil {
		return nil, false
	}
	o := callee.Origin()
	if o == nil {
		o = callee
	}
	if o.Name() != "respond" || o.Pkg == nil || o.Pkg.Pkg.Path() != ModulePath {
		return nil, false
	}
	return c.Common(), true
}

func isNewFutureCall(v ssa.Value) bool {
	c, ok := v.(*ssa.Call)
	if !ok {
		return false
	}
	callee := c.Common().StaticCallee()
	if callee == nil {
		return false
	}
	o := callee.Origin()
	if o == nil {
		o = callee
	}
	return o.Name() == "newFuture" && o.Pkg != nil && o.Pkg.Pkg.Path() == ModulePath
}

// ruleApplyOrder: C01 APPLY-ORDER, C03 FUT-ANSWER.
func ruleApplyOrder() *Rule {
	const id = "APPLY-ORDER"
	return &Rule{
		ID: id,
		Text: "In applyLoop the entry applied is log[lastApplied+1], fetched only with lastApplied < commitIndex on a running node; the Operation handed to StateMachine.Apply carries exactly that entry's Index, Term and Data with type Replicated; " +
			"lastApplied is only ever incremented by one; (FUT-ANSWER) the future answered is the one registered under that entry's index, removed from the table at lookup, and its response is built from that operation and from the result of Apply on it.",
		Floor: 6,
		Run: func(p *Program) []Obligation {
			root := p.Func("(*Raft).applyLoop")
			if root == nil {
				return missing(id, "(*Raft).applyLoop")
			}
			const E = "r.log.GetEntry((1 + r.lastApplied))#0"
			stateAtom := p.StateAtom()
			sp := NewSpace(CmpAtom("lastApplied?commitIndex", "r.lastApplied", "r.commitIndex"), stateAtom)
			a := NewAnalysis(p, sp)
			lastApplied := p.Field("Raft.lastApplied")
			opFields := map[*types.Var]string{}
			for _, n := range []string{"LogIndex", "LogTerm", "Bytes", "OperationType"} {
				if f := p.Field("Operation." + n); f != nil {
					opFields[f] = n
				}
			}
			var out []Obligation
			a.Hook = func(a *Analysis, f *Frame, in ssa.Instruction, st State) State {
				if f.Parent != nil {
					return st
				}
				if iface, m, c := invokeOf(in); iface == "Log" && m == "GetEntry" {
					o := a.Observe("fetch of the entry to apply (Log.GetEntry) in (*Raft).applyLoop", f, in, st)
					o.Extra["arg"] = p.Canon(f, c.Args[0]).S
				}
				if s, fld := storeField(in); s != nil {
					if fld == lastApplied {
						n := instrOrdinal(in, func(x ssa.Instruction) bool { _, fl := storeField(x); return fl == lastApplied })
						ob := Obligation{Rule: id, Construct: "store Raft.lastApplied" + ordSuffix(n) + " in (*Raft).applyLoop", Pos: p.InstrPos(in)}
						if isLoadPlusOne(p, s.Val, "Raft.lastApplied") {
							ob.Verdict, ob.Detail = Discharged, "lastApplied := lastApplied + 1"
						} else {
							ob.Verdict, ob.Detail = Violated, "lastApplied := "+p.Canon(f, s.Val).S+": the apply loop must advance by exactly one entry (skipping or repeating an index breaks in-order application)"
						}
						out = append(out, ob)
					}
					if name, ok := opFields[fld]; ok && rootAlloc(s.Addr) != nil {
						want := map[string]string{"LogIndex": E + ".Index", "LogTerm": E + ".Term", "Bytes": E + ".Data", "OperationType": "0"}[name]
						ob := Obligation{Rule: id, Construct: "field Operation." + name + " of the operation applied in (*Raft).applyLoop", Pos: p.InstrPos(in)}
						if v := p.Canon(f, s.Val).S; v == want {
							ob.Verdict, ob.Detail = Discharged, "= "+strings.Replace(want, E, "entry", 1)
						} else {
							ob.Verdict, ob.Detail = Violated, "Operation."+name+" := "+v+", must come from the entry being applied ("+want+")"
						}
						out = append(out, ob)
					}
				}
				return st
			}
			a.Run(root, nil)
			SD := enumIdx(stateAtom, "Shutdown")
			for _, o := range a.SortedObs() {
				obs := evalObs(a, id, []*Observation{o}, func(_ *Observation, pt int) bool { return sp.Val(pt, 0) == LT && sp.Val(pt, 1) != SD }, nil,
					"only committed, not yet applied entries are applied, on a running node")
				if o.Extra["arg"] != "(1 + r.lastApplied)" {
					obs[0].Verdict, obs[0].Detail = Violated, "the entry fetched for application is log["+o.Extra["arg"]+"], must be log[lastApplied+1]"
				}
				out = append(out, obs...)
			}
			hasInc := false
			for _, o := range out {
				if strings.HasPrefix(o.Construct, "store Raft.lastApplied") && o.Verdict == Discharged {
					hasInc = true
				}
			}
			if !hasInc {
				out = append(out, Obligation{Rule: id, Construct: "lastApplied advances in (*Raft).applyLoop", Pos: p.Pos(root.Pos()), Verdict: Violated,
					Detail: "the apply loop never advances lastApplied by one: the same committed entry is handed to the state machine again and again (an operation applied more than once)"})
			} else {
				out = append(out, Obligation{Rule: id, Construct: "lastApplied advances in (*Raft).applyLoop", Pos: p.Pos(root.Pos()), Verdict: Discharged, Detail: "incremented by one per applied entry"})
			}
			// APPLY-CONF: a committed configuration entry is applied through applyConfiguration(entry.Data)
			ac := p.Func("(*Raft).applyConfiguration")
			cob := Obligation{Rule: id, Construct: "APPLY-CONF configuration entries are applied in (*Raft).applyLoop", Pos: p.Pos(root.Pos())}
			found := false
			if ac != nil {
				fr := NewRootFrame(root)
				for _, b := range root.Blocks {
					for _, in := range b.Instrs {
						if c, ok := in.(*ssa.Call); ok && c.Common().StaticCallee() == ac {
							found = true
							cob.Pos = p.InstrPos(in)
							if v := p.Canon(fr, c.Common().Args[1]).S; v == E+".Data" {
								cob.Verdict, cob.Detail = Discharged, "applyConfiguration(entry.Data) of the entry being applied"
							} else {
								cob.Verdict, cob.Detail = Violated, "applyConfiguration is handed "+v+", must be the Data of the entry being applied"
							}
						}
					}
				}
			}
			if !found {
				cob.Verdict = Violated
				cob.Detail = "the apply loop never applies committed configuration entries: followers keep their old configuration forever (nodes disagree about membership and quorum sizes)"
			}
			out = append(out, cob)
			out = append(out, futAnswer(p, id, root, E)...)
			return dedupe(out)
		},
	}
}

// futAnswer: the respond call in applyLoop that answers a replicated operation.
func futAnswer(p *Program, id string, root *ssa.Function, E string) []Obligation {
	fr := NewRootFrame(root)
	var out []Obligation
	pending := p.Field("operationManager.pendingReplicated")
	var applyCall ssa.Value
	var opAlloc *ssa.Alloc
	for _, b := range root.Blocks {
		for _, in := range b.Instrs {
			if iface, m, c := invokeOf(in); iface == "StateMachine" && m == "Apply" {
				applyCall = in.(ssa.Value)
				opAlloc = rootAlloc(c.Args[0])
			}
		}
	}
	n := 0
	for _, b := range root.Blocks {
		for _, in := range b.Instrs {
			c, ok := isRespondCall(in)
			if !ok {
				continue
			}
			// only the respond that carries an OperationResponse
			if !strings.Contains(c.Args[1].Type().String(), "OperationResponse") {
				continue
			}
			n++
			ch := p.Canon(fr, c.Args[0])
			ob := Obligation{Rule: id, Construct: "FUT-ANSWER channel answered after Apply" + ordSuffix(n) + " in (*Raft).applyLoop", Pos: p.InstrPos(in), Facts: []string{"channel: " + ch.S}}
			want := "r.operationManager.pendingReplicated[" + E + ".Index]"
			if ch.S == want {
				ob.Verdict, ob.Detail = Discharged, "the future registered under the applied entry's index"
			} else {
				ob.Verdict, ob.Detail = Violated, "the channel answered is "+ch.S+", must be pendingReplicated[entry.Index] of the entry just applied"
			}
			out = append(out, ob)
			// response content: Operation field = the applied operation, ApplicationResponse = result of Apply
			ob2 := Obligation{Rule: id, Construct: "FUT-ANSWER response content" + ordSuffix(n) + " in (*Raft).applyLoop", Pos: p.InstrPos(in)}
			okOp, okRes := false, false
			if u, ok := c.Args[1].(*ssa.UnOp); ok {
				if al, ok := u.X.(*ssa.Alloc); ok {
					for _, r := range *al.Referrers() {
						fa, ok := r.(*ssa.FieldAddr)
						if !ok {
							continue
						}
						for _, rr := range *fa.Referrers() {
							s, ok := rr.(*ssa.Store)
							if !ok {
								continue
							}
							switch fieldOf(fa.X.Type(), fa.Field).Name() {
							case "Operation":
								if lu, ok := s.Val.(*ssa.UnOp); ok && lu.X == ssa.Value(opAlloc) && opAlloc != nil {
									okOp = true
								}
							case "ApplicationResponse":
								if s.Val == applyCall && applyCall != nil {
									okRes = true
								}
							}
						}
					}
				}
			}
			if okOp && okRes {
				ob2.Verdict, ob2.Detail = Discharged, "Operation = the operation applied, ApplicationResponse = the result of StateMachine.Apply on it"
			} else {
				ob2.Verdict = Violated
				ob2.Detail = fmt.Sprintf("the response is not built from the applied operation and its result (operation: %v, result: %v)", okOp, okRes)
			}
			out = append(out, ob2)
		}
	}
	if n == 0 {
		return missing(id, "respond(...) with an OperationResponse in (*Raft).applyLoop")
	}
	// removal from the table
	del := Obligation{Rule: id, Construct: "FUT-ANSWER future removed from pendingReplicated at lookup in (*Raft).applyLoop", Pos: p.Pos(root.Pos())}
	found := false
	for _, b := range root.Blocks {
		for _, in := range b.Instrs {
			if c, ok := in.(*ssa.Call); ok {
				if bi, ok := c.Common().Value.(*ssa.Builtin); ok && bi.Name() == "delete" {
					m := p.Canon(fr, c.Common().Args[0])
					k := p.Canon(fr, c.Common().Args[1])
					if pending != nil && m.Fields[pending] && k.S == E+".Index" {
						found = true
						del.Pos = p.InstrPos(in)
					}
				}
			}
		}
	}
	if found {
		del.Verdict, del.Detail = Discharged, "delete(pendingReplicated, entry.Index)"
	} else {
		del.Verdict, del.Detail = Violated, "the answered future stays registered under its index: after a leader change a different entry applied at the same index would answer it"
	}
	return append(out, del)
}

// ruleFutIndex: C03 FUT-INDEX, C04 ACK-AFTER-APPEND (leader), C07 LEADER-APPEND / LEADER-NOOP.
func ruleFutIndex() *Rule {
	const id = "LEADER-APPEND"
	return &Rule{
		ID: id,
		Text: "Every log entry the library creates on a leader path is NewLogEntry(r.log.NextIndex(), r.currentTerm, …) and is appended (error fatal) with state = Leader before anything is sent; " +
			"(FUT-INDEX) submitReplicatedOperation registers the future under entry.Index of the very entry it appended, after the append, in the same critical section; " +
			"(LEADER-NOOP) becomeLeader appends a NoOpEntry of its term before the first send.",
		Floor: 4,
		Run: func(p *Program) []Obligation {
			newEntry := p.Func("NewLogEntry")
			if newEntry == nil {
				return missing(id, "NewLogEntry")
			}
			var out []Obligation
			noop, _ := p.ConstVal("NoOpEntry")
			for _, root := range p.Roots() {
				var sites []string
				p.discover(root, func(a *Analysis, f *Frame, in ssa.Instruction) {
					if c, ok := in.(*ssa.Call); ok && c.Common().StaticCallee() == newEntry {
						sites = append(sites, p.Canon(f, c.Common().Args[0]).S)
					}
				})
				if len(sites) == 0 {
					continue
				}
				stateAtom := p.StateAtom()
				atoms := []*Atom{stateAtom, GhostAtom("sentSinceAppend", "no", "yes")}
				seen := map[string]int{}
				for _, s := range sites {
					if _, ok := seen[s]; !ok && s != "r.log.NextIndex()" {
						seen[s] = len(atoms)
						atoms = append(atoms, CmpAtom(s+"?NextIndex", s, "r.log.NextIndex()"))
					}
				}
				sp := NewSpace(atoms...)
				a := NewAnalysis(p, sp)
				sendPeers := p.Func("(*Raft).sendAppendEntriesToPeers")
				a.NoInline = func(callee *ssa.Function) bool { return callee == newEntry }
				a.Hook = func(a *Analysis, f *Frame, in ssa.Instruction, st State) State {
					if c, ok := in.(*ssa.Call); ok && c.Common().StaticCallee() == newEntry {
						if FuncName(f.Fn) == "(*Raft).Bootstrap" {
							return st
						}
						n := instrOrdinal(in, func(x ssa.Instruction) bool { return staticCallee(x) == newEntry })
						o := a.Observe("call NewLogEntry"+ordSuffix(n)+" in "+chainKey(f), f, in, st)
						o.Extra["index"] = p.Canon(f, c.Common().Args[0]).S
						o.Extra["term"] = p.Canon(f, c.Common().Args[1]).S
						o.Extra["type"] = p.Canon(f, c.Common().Args[3]).S
						o.Extra["fn"] = FuncName(f.Fn)
						// is the entry appended (error fatal) in this function, before any send?
						o.Extra["appended"] = "no"
						for _, r := range *c.Referrers() {
							if iface, m, _ := invokeOf(r); iface == "Log" && m == "AppendEntry" {
								o.Extra["appended"] = p.errFate(r.(ssa.Value))
							}
						}
					}
					return st
				}
				a.Run(root, nil)
				L := enumIdx(stateAtom, "Leader")
				for _, o := range a.SortedObs() {
					ci, hasAtom := seen[o.Extra["index"]]
					obs := evalObs(a, id, []*Observation{o}, func(_ *Observation, pt int) bool {
						if sp.Val(pt, 0) != L {
							return false
						}
						if o.Extra["index"] == "r.log.NextIndex()" {
							return true
						}
						return hasAtom && sp.Val(pt, ci) == EQ
					}, nil, "a leader creates entries only at the end of its log, as leader")
					switch {
					case o.Extra["term"] != "r.currentTerm":
						obs[0].Verdict, obs[0].Detail = Violated, "entry created with term "+o.Extra["term"]+", must be r.currentTerm"
					case o.Extra["appended"] != "fatal":
						obs[0].Verdict, obs[0].Detail = Violated, "the entry is not appended to the log with a fatal error path in the function that creates it (append: "+o.Extra["appended"]+")"
					}
					out = append(out, obs...)
					if o.Extra["fn"] == "(*Raft).becomeLeader" {
						ob := Obligation{Rule: id, Construct: "LEADER-NOOP entry appended on leader entry in " + o.Chain, Pos: o.Pos}
						if o.Extra["type"] == fmt.Sprint(noop) {
							ob.Verdict, ob.Detail = Discharged, "NoOpEntry of the new term"
						} else {
							ob.Verdict, ob.Detail = Undecided, "entry type "+o.Extra["type"]
						}
						out = append(out, ob)
					}
				}
				_ = sendPeers
			}
			out = append(out, leaderNoop(p, id)...)
			out = append(out, futIndex(p, id)...)
			return dedupe(out)
		},
	}
}

// leaderNoop: becomeLeader must append an entry before its first send (structural, by dominance).
func leaderNoop(p *Program, id string) []Obligation {
	fn := p.Func("(*Raft).becomeLeader")
	sendPeers := p.Func("(*Raft).sendAppendEntriesToPeers")
	if fn == nil || sendPeers == nil {
		return missing(id, "(*Raft).becomeLeader")
	}
	ob := Obligation{Rule: id, Construct: "LEADER-NOOP append before the first send in (*Raft).becomeLeader", Pos: p.Pos(fn.Pos())}
	var appendIn, sendIn ssa.Instruction
	for _, b := range fn.Blocks {
		for _, in := range b.Instrs {
			if iface, m, _ := invokeOf(in); iface == "Log" && m == "AppendEntry" && appendIn == nil {
				appendIn = in
			}
			if c, ok := in.(*ssa.Call); ok && c.Common().StaticCallee() == sendPeers && sendIn == nil {
				sendIn = in
			}
		}
	}
	switch {
	case appendIn == nil:
		ob.Verdict = Violated
		ob.Detail = "becomeLeader appends no entry of its own term: committedThisTerm() never becomes true on an idle cluster (reads, membership changes and commitment of older entries stall) and leader completeness loses its anchor"
	case sendIn == nil:
		ob.Verdict, ob.Detail = Discharged, "entry appended; becomeLeader sends nothing itself"
	case instrDominates(appendIn, sendIn):
		ob.Verdict, ob.Detail = Discharged, "Log.AppendEntry dominates sendAppendEntriesToPeers"
	default:
		ob.Verdict, ob.Detail = Violated, "the first AppendEntries round of a new leader is sent before its no-op entry is appended"
	}
	return []Obligation{ob}
}

// futIndex: C03 FUT-INDEX.
func futIndex(p *Program, id string) []Obligation {
	fn := p.Func("(*Raft).submitReplicatedOperation")
	pending := p.Field("operationManager.pendingReplicated")
	newEntry := p.Func("NewLogEntry")
	if fn == nil || pending == nil {
		return missing(id, "(*Raft).submitReplicatedOperation / operationManager.pendingReplicated")
	}
	fr := NewRootFrame(fn)
	var out []Obligation
	n := 0
	for _, b := range fn.Blocks {
		for _, in := range b.Instrs {
			mu, ok := in.(*ssa.MapUpdate)
			if !ok || !p.Canon(fr, mu.Map).Fields[pending] {
				continue
			}
			n++
			ob := Obligation{Rule: id, Construct: "FUT-INDEX key of the future registered in (*Raft).submitReplicatedOperation" + ordSuffix(n), Pos: p.InstrPos(in)}
			// key = load(FieldAddr(X, Index)) with X a NewLogEntry call that is also appended before
			var entryCall *ssa.Call
			if u, ok := stripConv(mu.Key).(*ssa.UnOp); ok {
				if fa, ok := u.X.(*ssa.FieldAddr); ok && fieldOf(fa.X.Type(), fa.Field).Name() == "Index" {
					entryCall, _ = fa.X.(*ssa.Call)
				}
			}
			switch {
			case entryCall == nil || entryCall.Common().StaticCallee() != newEntry:
				ob.Verdict = Violated
				ob.Detail = "the future is registered under " + p.Canon(fr, mu.Key).S + ", must be entry.Index of the entry created and appended in this call (a key computed separately, e.g. NextIndex() after the append, answers the wrong submission)"
			default:
				var app ssa.Instruction
				for _, r := range *entryCall.Referrers() {
					if iface, m, _ := invokeOf(r); iface == "Log" && m == "AppendEntry" {
						app = r
					}
				}
				switch {
				case app == nil:
					ob.Verdict, ob.Detail = Violated, "the entry whose index keys the future is never appended"
				case !instrDominates(app, in):
					ob.Verdict, ob.Detail = Violated, "the future is registered before the entry was appended successfully"
				case p.errFate(app.(ssa.Value)) != "fatal":
					ob.Verdict, ob.Detail = Violated, "the append's error is not fatal: a future could be registered for an entry that is not in the log"
				default:
					ob.Verdict, ob.Detail = Discharged, "entry.Index of the entry appended (fatal on error) earlier in the same critical section"
				}
			}
			// value registered = the future's channel
			if ob.Verdict == Discharged {
				v := p.Canon(fr, mu.Value).S
				if !strings.HasSuffix(v, ".responseCh") {
					ob.Verdict, ob.Detail = Violated, "the value registered ("+v+") is not the returned future's channel"
				}
			}
			out = append(out, ob)
		}
	}
	if n == 0 {
		return []Obligation{{Rule: id, Construct: "FUT-INDEX key of the future registered in (*Raft).submitReplicatedOperation", Pos: p.Pos(fn.Pos()), Verdict: Violated,
			Detail: "submitReplicatedOperation registers no future in pendingReplicated: a successful submission can only time out"}}
	}
	return out
}

// ruleLeaderExit: C03 LEADER-EXIT-RESET.
func ruleLeaderExit() *Rule {
	const id = "LEADER-EXIT-RESET"
	return &Rule{
		ID: id,
		Text: "Every store that moves Raft.state to Follower, PreCandidate, Candidate or Shutdown at a point where the node may be Leader is followed, before the critical section ends, by operationManager.notifyLostLeaderShip (which answers every pending future with an error and empties both tables) and by installing a fresh operationManager, and the slot r.configurationResponseCh is set to nil. " +
			"(Until D39 state := Shutdown in Stop was exempt, on the argument that a stopped node applies nothing and any conflicting entry arrives with a higher term through becomeFollower: wrong, becomeCandidate raises the term without clearing anything and Start() enters Follower directly.)",
		Floor: 3,
		Run: func(p *Program) []Obligation {
			stateFld := p.Field("Raft.state")
			omFld := p.Field("Raft.operationManager")
			slotFld := p.Field("Raft.configurationResponseCh")
			notify := p.Func("(*operationManager).notifyLostLeaderShip")
			nom := p.Func("newOperationManager")
			if stateFld == nil || omFld == nil || slotFld == nil || notify == nil || nom == nil {
				return missing(id, "Raft.state / notifyLostLeaderShip / newOperationManager")
			}
			var out []Obligation
			vals, labels := p.stateVals()
			for _, root := range p.Roots() {
				if !p.writesAny(root, stateFld) {
					continue
				}
				var sites []string
				siteKey := func(f *Frame, in ssa.Instruction) string {
					n := instrOrdinal(in, func(x ssa.Instruction) bool { _, fl := storeField(x); return fl == stateFld })
					return "store Raft.state" + ordSuffix(n) + " in " + chainKey(f)
				}
				p.discover(root, func(a *Analysis, f *Frame, in ssa.Instruction) {
					if s, fld := storeField(in); s != nil && fld == stateFld {
						sites = append(sites, siteKey(f, in))
					}
				})
				stateAtom := p.StateAtom()
				owes := GhostAtom("resetOwedBy", append([]string{"no"}, sites...)...)
				notified := GhostAtom("notified", "no", "yes")
				slotOwes := GhostAtom("slotOwedBy", append([]string{"no"}, sites...)...)
				sp := NewSpace(stateAtom, owes, notified, slotOwes)
				a := NewAnalysis(p, sp)
				L := enumIdx(stateAtom, "Leader")
				pos := map[int]string{}
				a.Hook = func(a *Analysis, f *Frame, in ssa.Instruction, st State) State {
					if s, fld := storeField(in); s != nil {
						switch fld {
						case stateFld:
							c, ok := s.Val.(*ssa.Const)
							if !ok {
								return st
							}
							iv, _ := constInt(c)
							target := ""
							for i, v := range vals {
								if v == iv {
									target = labels[i]
								}
							}
							key := siteKey(f, in)
							si := 0
							for i, s := range sites {
								if s == key {
									si = i + 1
								}
							}
							pos[si] = p.InstrPos(in)
							a.Observe("SITE "+key, f, in, st).Extra["target"] = target
							if target == "Follower" || target == "PreCandidate" || target == "Candidate" || target == "Shutdown" {
								// where the node may be leader, a reset is owed
								owe := func(pt, old int) uint32 {
									if sp.Val(pt, 0) == L {
										return 1 << uint(si)
									}
									return 1 << uint(old)
								}
								return sp.Map(sp.Map(st, 1, owe), 3, owe)
							}
						case slotFld:
							if c, ok := s.Val.(*ssa.Const); ok && c.IsNil() {
								return sp.Assign(st, 3, 0)
							}
						case omFld:
							if c, ok := s.Val.(*ssa.Call); ok && c.Common().StaticCallee() == nom {
								// fresh manager: the reset is complete if the old one was notified
								return sp.Map(st, 1, func(pt, old int) uint32 {
									if sp.Val(pt, 2) == 1 {
										return 1
									}
									return 1 << uint(old)
								})
							}
						}
						return st
					}
					if c, ok := in.(*ssa.Call); ok && c.Common().StaticCallee() == notify {
						if p.Canon(f, c.Common().Args[0]).S == "r.operationManager" {
							return sp.Assign(st, 2, 1)
						}
					}
					if what, ok := a.isSectionEnd(in); ok {
						n := instrOrdinal(in, func(x ssa.Instruction) bool { _, ok := a.isSectionEndStatic(x); return ok })
						a.Observe("END "+what+ordSuffix(n)+" in "+chainKey(f), f, in, st)
						return sp.Assign(sp.Assign(sp.Assign(st, 1, 0), 2, 0), 3, 0)
					}
					return st
				}
				entry := sp.Filter(sp.Filter(sp.Filter(sp.Top(), 1, 1), 2, 1), 3, 1)
				a.RunFrame(NewRootFrame(root), entry)
				owedAt := map[int][]string{}
				slotOwedAt := map[int][]string{}
				for _, o := range a.SortedObs() {
					if !strings.HasPrefix(o.Key, "END") {
						continue
					}
					for i := 1; i <= len(sites); i++ {
						if !sp.Filter(o.State, 1, 1<<uint(i)).IsEmpty() {
							owedAt[i] = append(owedAt[i], strings.TrimPrefix(o.Key, "END ")+" ("+o.Pos+")")
						}
						if !sp.Filter(o.State, 3, 1<<uint(i)).IsEmpty() {
							slotOwedAt[i] = append(slotOwedAt[i], strings.TrimPrefix(o.Key, "END ")+" ("+o.Pos+")")
						}
					}
				}
				for _, o := range a.SortedObs() {
					if !strings.HasPrefix(o.Key, "SITE") {
						continue
					}
					key := strings.TrimPrefix(o.Key, "SITE ")
					si := 0
					for i, s := range sites {
						if s == key {
							si = i + 1
						}
					}
					ob := Obligation{Rule: id, Construct: key, Pos: o.Pos, Facts: []string{"context: " + o.Chain, "target: " + o.Extra["target"], "state before: " + strings.Join(sp.Project(o.State, 0), " | ")}}
					switch {
					case o.Extra["target"] == "Leader":
						ob.Verdict, ob.Detail = Discharged, "not a leader exit ("+o.Extra["target"]+")"
					case len(owedAt[si]) > 0:
						ob.Verdict = Violated
						ob.Detail = "a leader can leave the leader role here without its pending futures being failed and its operation manager replaced before the critical section ends: a stale future can later be answered with an entry a new leader put at the same index"
						for _, e := range owedAt[si] {
							ob.Facts = append(ob.Facts, "section ends with the reset owed at: "+e)
						}
					case len(slotOwedAt[si]) > 0:
						ob.Verdict = Violated
						ob.Detail = "a leader can leave the leader role here with the future of a membership change still in the slot r.configurationResponseCh when the critical section ends: the apply loop answers whatever is in the slot when it applies ANY configuration entry, so the old future can later succeed with a configuration that does not contain the change it asked for"
						for _, e := range slotOwedAt[si] {
							ob.Facts = append(ob.Facts, "section ends with the slot not emptied at: "+e)
						}
					default:
						ob.Verdict, ob.Detail = Discharged, "either the node cannot be leader here, or notifyLostLeaderShip + fresh operationManager + r.configurationResponseCh = nil follow in the same critical section"
					}
					out = append(out, ob)
				}
			}
			out = append(out, notifyBody(p, id, notify)...)
			return dedupe(out)
		},
	}
}

// notifyBody: notifyLostLeaderShip answers every channel of both tables with a non-nil error and replaces both maps.
func notifyBody(p *Program, id string, fn *ssa.Function) []Obligation {
	fr := NewRootFrame(fn)
	ranged := map[string]bool{}
	replaced := map[string]bool{}
	for _, b := range fn.Blocks {
		for _, in := range b.Instrs {
			if c, ok := isRespondCall(in); ok {
				// channel = value of a range over recv.<table>; error argument non-nil
				if ex, ok := c.Args[0].(*ssa.Extract); ok && ex.Index == 2 {
					if nx, ok := ex.Tuple.(*ssa.Next); ok {
						if rg, ok := nx.Iter.(*ssa.Range); ok {
							if k, ok := c.Args[2].(*ssa.Const); !ok || k.Value != nil {
								ranged[p.Canon(fr, rg.X).S] = true
							}
						}
					}
				}
			}
			if s, fld := storeField(in); s != nil && fld != nil {
				if _, ok := s.Val.(*ssa.MakeMap); ok {
					replaced[fld.Name()] = true
				}
			}
		}
	}
	var out []Obligation
	for _, t := range []string{"pendingReadOnly", "pendingReplicated"} {
		ob := Obligation{Rule: id, Construct: "notifyLostLeaderShip fails and empties " + t, Pos: p.Pos(fn.Pos())}
		switch {
		case !ranged["recv."+t]:
			ob.Verdict, ob.Detail = Violated, "pending futures in "+t+" are not answered with an error when leadership is lost"
		case !replaced[t]:
			ob.Verdict, ob.Detail = Violated, t+" is not replaced by an empty map: futures of the lost leadership stay registered"
		default:
			ob.Verdict, ob.Detail = Discharged, "every channel answered with an error, table replaced"
		}
		out = append(out, ob)
	}
	return out
}

// ruleFutResolve: C18 FUT-RESOLVE.
func ruleFutResolve() *Rule {
	const id = "FUT-RESOLVE"
	return &Rule{
		ID: id,
		Text: "For every future created by newFuture in a public method: on every path to the return its channel has been passed to respond, or stored in a table/field from which some respond call of the library reads " +
			"(pendingReplicated, pendingReadOnly, or a Raft field that has both a writer and a responding reader). A path that returns a future nobody can ever answer is a violation.",
		Floor: 5,
		Run: func(p *Program) []Obligation {
			// which Raft fields of channel type are read by a respond call and written somewhere
			respondReads := map[*types.Var]bool{}
			successReads := map[*types.Var]bool{}
			written := map[*types.Var]bool{}
			p.eachInstr(func(fn *ssa.Function, in ssa.Instruction) {
				if c, ok := isRespondCall(in); ok {
					if u, ok := c.Args[0].(*ssa.UnOp); ok {
						if fa, ok := u.X.(*ssa.FieldAddr); ok {
							respondReads[fieldOf(fa.X.Type(), fa.Field)] = true
							if k, ok := c.Args[2].(*ssa.Const); ok && k.Value == nil {
								successReads[fieldOf(fa.X.Type(), fa.Field)] = true
							}
						}
					}
				}
				if s, fld := storeField(in); s != nil && fld != nil {
					if c, ok := s.Val.(*ssa.Const); !ok || c.Value != nil {
						written[fld] = true
					}
				}
			})
			pendingR, pendingRO := p.Field("operationManager.pendingReplicated"), p.Field("operationManager.pendingReadOnly")
			var out []Obligation
			for _, root := range p.Roots() {
				// futures created in this root
				var futs []string
				p.discover(root, func(a *Analysis, f *Frame, in ssa.Instruction) {
					if v, ok := in.(ssa.Value); ok && isNewFutureCall(v) {
						futs = append(futs, fmt.Sprintf("future%s created in %s", ordSuffix(instrOrdinal(in, func(x ssa.Instruction) bool {
							xv, ok := x.(ssa.Value)
							return ok && isNewFutureCall(xv)
						})), chainKey(f)))
					}
				})
				if len(futs) == 0 {
					continue
				}
				var atoms []*Atom
				for _, fu := range futs {
					atoms = append(atoms, GhostAtom(fu, "not created", "unresolved", "resolved"))
				}
				sp := NewSpace(atoms...)
				a := NewAnalysis(p, sp)
				reg := map[ssa.Value]int{} // future call value -> atom
				pos := map[int]string{}
				chOf := func(v ssa.Value) (int, bool) {
					// v = load(FieldAddr(fut, responseCh))
					u, ok := v.(*ssa.UnOp)
					if !ok {
						return 0, false
					}
					fa, ok := u.X.(*ssa.FieldAddr)
					if !ok || fieldOf(fa.X.Type(), fa.Field).Name() != "responseCh" {
						return 0, false
					}
					i, ok := reg[fa.X]
					return i, ok
				}
				a.Hook = func(a *Analysis, f *Frame, in ssa.Instruction, st State) State {
					if v, ok := in.(ssa.Value); ok && isNewFutureCall(v) {
						key := fmt.Sprintf("future%s created in %s", ordSuffix(instrOrdinal(in, func(x ssa.Instruction) bool {
							xv, ok := x.(ssa.Value)
							return ok && isNewFutureCall(xv)
						})), chainKey(f))
						for i, fu := range futs {
							if fu == key {
								reg[v] = i
								pos[i] = p.InstrPos(in)
								return sp.Assign(st, i, 1)
							}
						}
					}
					if c, ok := isRespondCall(in); ok {
						if i, ok := chOf(c.Args[0]); ok {
							return sp.Assign(st, i, 2)
						}
					}
					if mu, ok := in.(*ssa.MapUpdate); ok {
						m := p.Canon(f, mu.Map)
						if (pendingR != nil && m.Fields[pendingR]) || (pendingRO != nil && m.Fields[pendingRO]) {
							if i, ok := chOf(mu.Value); ok {
								return sp.Assign(st, i, 2)
							}
						}
					}
					if s, fld := storeField(in); s != nil && fld != nil && respondReads[fld] {
						if i, ok := chOf(s.Val); ok {
							return sp.Assign(st, i, 2)
						}
					}
					if _, ok := exitPoint(in); ok && f.Parent == nil {
						a.Observe("EXIT of "+FuncName(f.Fn), f, in, st)
					}
					return st
				}
				entry := sp.Top()
				for i := range atoms {
					entry = sp.Filter(entry, i, 1)
				}
				a.RunFrame(NewRootFrame(root), entry)
				for i, fu := range futs {
					ob := Obligation{Rule: id, Construct: fu, Pos: pos[i]}
					bad := false
					for _, o := range a.SortedObs() {
						if !sp.Filter(o.State, i, 1<<1).IsEmpty() {
							bad = true
							ob.Facts = append(ob.Facts, "returned unresolved and unregistered at "+o.Pos)
						}
					}
					if bad {
						ob.Verdict = Violated
						ob.Detail = "on some path the future is returned although its channel was neither answered nor stored anywhere a responder reads: it can only time out, even if the request succeeds"
					} else {
						ob.Verdict, ob.Detail = Discharged, "answered or registered with a responder on every path"
					}
					out = append(out, ob)
				}
			}
			// registered-but-never-answered: a field read by respond must have a writer
			for fld := range respondReads {
				if p.Field("Raft."+fld.Name()) != fld {
					continue // only node-level responder fields; a future's own channel is set by newFuture
				}
				ob := Obligation{Rule: id, Construct: "responder field " + fld.Name() + " has a writer", Pos: p.Pos(fld.Pos())}
				if written[fld] && !successReads[fld] {
					ob.Verdict, ob.Detail = Violated, "futures registered in "+fld.Name()+" are only ever answered with an error: a request that succeeds can only time out or fail"
				} else if written[fld] {
					ob.Verdict, ob.Detail = Discharged, "written somewhere, answered by a respond call with a nil error (success) and by error responders"
				} else {
					ob.Verdict, ob.Detail = Violated, "field "+fld.Name()+" is answered by a respond call but never assigned a channel: the responder is dead code and the futures it was meant for never resolve"
				}
				out = append(out, ob)
			}
			return dedupe(out)
		},
	}
}
