package lint

// SNAP-ATOMIC and SNAP-PICK (C13).

import (
	"fmt"
	"go/token"
	"go/types"
	"regexp"
	"strconv"
	"strings"

	"golang.org/x/tools/go/ssa"
)

// inTmpDirTest: cond (resolved) compares filepath.Dir(file.Name()) with the tmpDir field.
// trueMeansIn is the truth value of cond under which the file lives in the temporary directory.
func inTmpDirTest(fr *sframe, cond ssa.Value, fileFld, tmpFld *types.Var) (isTest, trueMeansIn bool) {
	b, ok := resolve(fr, cond).(*ssa.BinOp)
	if !ok || (b.Op != token.EQL && b.Op != token.NEQ) {
		return false, false
	}
	isDirOfFile := func(v ssa.Value) bool {
		c, cf := callOf(fr, v, -1)
		if c == nil || calleeName(c.Common()) != "path/filepath.Dir" {
			return false
		}
		f, ff := nameOfFile(cf, c.Common().Args[0])
		return f != nil && fieldLoad(ff, f, fileFld)
	}
	x, y := b.X, b.Y
	if isDirOfFile(y) {
		x, y = y, x
	}
	if !isDirOfFile(x) || !fieldLoad(fr, y, tmpFld) {
		return false, false
	}
	return true, b.Op == token.EQL
}

// nilTestOfField: cond compares a load of field fld with nil; trueMeansNil.
func nilTestOfField(fr *sframe, cond ssa.Value, fld *types.Var) (isTest, trueMeansNil bool) {
	b, ok := resolve(fr, cond).(*ssa.BinOp)
	if !ok || (b.Op != token.EQL && b.Op != token.NEQ) {
		return false, false
	}
	x, y := b.X, b.Y
	if isNilConst(x) {
		x, y = y, x
	}
	if !isNilConst(y) || !fieldLoad(fr, x, fld) {
		return false, false
	}
	return true, b.Op == token.EQL
}

func ruleSnapAtomic() *Rule {
	return &Rule{
		ID: "SNAP-ATOMIC",
		Text: "NewSnapshotFile creates the snapshot in a directory made by os.MkdirTemp in snapshotDir with a \"tmp\" prefix, records that directory in snapshotFile.tmpDir and a data file inside it, and syncs and closes every other file it wrote (the metadata) before returning; " +
			"(*snapshotFile).Close syncs then closes the data file and renames tmpDir to dir only for a file living in tmpDir, returns nil only after that, and a deferred function removes tmpDir unless the rename succeeded; " +
			"(*snapshotFile).Discard removes only tmpDir and only for a non-nil file living in it.",
		Floor: 6,
		Run: func(p *Program) []Obligation {
			obs := newObSet("SNAP-ATOMIC")
			snapNew(p, obs)
			encodedFromParams(p, obs, "(*persistentSnapshotStorage).NewSnapshotFile", "encodeMetadata",
				map[string]string{"LastIncludedIndex": "lastIncludedIndex", "LastIncludedTerm": "lastIncludedTerm", "Configuration": "configuration"})
			snapClose(p, obs)
			snapDiscard(p, obs)
			return obs.list()
		},
	}
}

func snapNew(p *Program, obs *obSet) {
	const fname = "(*persistentSnapshotStorage).NewSnapshotFile"
	fn := p.Func(fname)
	dirFld := p.Field("persistentSnapshotStorage.snapshotDir")
	tmpFld, fileFld, finalFld := p.Field("snapshotFile.tmpDir"), p.Field("snapshotFile.file"), p.Field("snapshotFile.dir")
	if fn == nil || dirFld == nil || tmpFld == nil || fileFld == nil || finalFld == nil {
		obs.lost(fname + " / snapshotFile fields")
		return
	}
	var sites flowSites
	var root *sframe
	var mkdir *ssa.Call
	s := &flowSpec{p: p, root: fn}
	s.inlineVeto = func(fr *sframe, c *ssa.Call) bool { return passesFileAsWriter(c) }
	createdFile := func(fr *sframe, v ssa.Value) (*ssa.Call, *sframe) {
		c, cf := callOf(fr, v, 0)
		if c == nil {
			return nil, nil
		}
		switch calleeName(c.Common()) {
		case "os.Create", "os.OpenFile", "os.CreateTemp":
			return c, cf
		}
		return nil, nil
	}
	inTmp := func(c *ssa.Call, cf *sframe) bool {
		es, ef := joinElems(cf, c.Common().Args[0])
		if es == nil || mkdir == nil {
			return false
		}
		m, _ := callOf(ef, es[0], 0)
		return m == mkdir
	}
	s.instr = func(v *flowVisit, in ssa.Instruction) (string, bool) {
		if root == nil {
			root = v.Fr.root()
		}
		st := v.St
		if c := callNamed(in, "os.MkdirTemp"); c != nil {
			key := "temporary directory created in snapshotDir with a tmp prefix in " + fname
			mkdir = c
			pat, isConst := constStringOf(c.Common().Args[1])
			switch {
			case !fieldLoad(v.Fr, c.Common().Args[0], dirFld):
				obs.fail(key, p.InstrPos(c), "os.MkdirTemp is not given the snapshot directory", v.Path(), "directory: "+describe(v.Fr, c.Common().Args[0]))
			case !isConst:
				obs.undecided(key, p.InstrPos(c), "the name pattern of os.MkdirTemp is not a constant")
			case !strings.HasPrefix(pat, "tmp"):
				obs.fail(key, p.InstrPos(c), fmt.Sprintf("the name pattern %q does not start with \"tmp\": an unfinished snapshot would not be collected by RemoveTmpFiles", pat), v.Path())
			default:
				obs.ok(key, p.InstrPos(c), "os.MkdirTemp(snapshotDir, "+strconv.Quote(pat)+")")
			}
			return st, false
		}
		if kind, f, call := fileEvent(in); kind != "" {
			cr, cf := createdFile(v.Fr, f)
			if cr == nil {
				return st, false
			}
			i := sites.id(cf, cr)
			switch kind {
			case "write", "truncate":
				return stAdd(stDel(st, fmt.Sprintf("S@%d", i), fmt.Sprintf("C@%d", i)), fmt.Sprintf("W@%d", i)), false
			case "sync":
				if stHas(st, fmt.Sprintf("W@%d", i)) && !hasFlag(st, fmt.Sprintf("C@%d", i)) {
					return stAdd(st, fmt.Sprintf("S@%d@%d", i, sites.id(v.Fr, call))), false
				}
			case "close":
				if hasFlag(st, fmt.Sprintf("S@%d", i)) {
					return stAdd(st, fmt.Sprintf("C@%d@%d", i, sites.id(v.Fr, call))), false
				}
				return stAdd(st, fmt.Sprintf("CX@%d", i)), false
			}
			return st, false
		}
		ret, ok := in.(*ssa.Return)
		if !ok || v.Fr != root {
			return st, false
		}
		if len(ret.Results) != 2 || isNilConst(ret.Results[0]) {
			return st, true
		}
		// the returned object
		keyObj := "returned snapshotFile records the temporary directory and a data file inside it in " + fname
		al, _ := resolve(v.Fr, ret.Results[0]).(*ssa.Alloc)
		var dataFile *ssa.Call
		if al == nil {
			obs.undecided(keyObj, p.InstrPos(in), "the returned value is not a freshly allocated snapshotFile")
		} else {
			stored := map[*types.Var]ssa.Value{}
			for _, r := range *al.Referrers() {
				if fa, ok := r.(*ssa.FieldAddr); ok {
					for _, rr := range *fa.Referrers() {
						if sto, ok := rr.(*ssa.Store); ok && sto.Addr == ssa.Value(fa) {
							stored[fieldOf(fa.X.Type(), fa.Field)] = sto.Val
						}
					}
				}
			}
			tm, _ := callOf(v.Fr, stored[tmpFld], 0)
			df, dff := createdFile(v.Fr, stored[fileFld])
			finalOK := false
			if es, ef := joinElems(v.Fr, stored[finalFld]); len(es) >= 2 && fieldLoad(ef, es[0], dirFld) {
				finalOK = true
			}
			switch {
			case mkdir == nil || tm != mkdir:
				obs.fail(keyObj, p.InstrPos(in), "snapshotFile.tmpDir is not the directory made by os.MkdirTemp", v.Path(), "tmpDir: "+describe(v.Fr, stored[tmpFld]))
			case df == nil || !inTmp(df, dff):
				obs.fail(keyObj, p.InstrPos(in), "snapshotFile.file is not a file created inside the temporary directory", v.Path(), "file: "+describe(v.Fr, stored[fileFld]))
			case !finalOK && stored[finalFld] == nil && closeNamesSibling(p, tmpFld, finalFld):
				obs.ok(keyObj, p.InstrPos(in), "tmpDir is the os.MkdirTemp directory, the data file is created inside it, and the final name is chosen by Close as a sibling of tmpDir (filepath.Join(filepath.Dir(tmpDir), …))")
			case !finalOK:
				obs.undecided(keyObj, p.InstrPos(in), "snapshotFile.dir is not filepath.Join(snapshotDir, …)", "dir: "+describe(v.Fr, stored[finalFld]))
			default:
				dataFile = df
				obs.ok(keyObj, p.InstrPos(in), "tmpDir = os.MkdirTemp result, file = a file created in it, dir = a path inside snapshotDir")
			}
		}
		// every other file that was written must be synced and closed
		for _, w := range stFlags(st, "W") {
			site := sites.at(w[0])
			if site.call == dataFile {
				continue
			}
			key := "file written by " + fname + " is synced then closed before the snapshot file is returned: " + siteKey(site.fr, site.call)
			var sy, cl flowSite
			hasS, hasC := false, false
			for _, f := range stFlags(st, "S") {
				if f[0] == w[0] {
					sy, hasS = sites.at(f[1]), true
				}
			}
			for _, f := range stFlags(st, "C") {
				if f[0] == w[0] {
					cl, hasC = sites.at(f[1]), true
				}
			}
			v.Note("%s: return of the snapshot file", p.InstrPos(in))
			switch {
			case !hasS:
				obs.fail(key, p.InstrPos(site.call), "the file is written and the snapshot file returned with no (*os.File).Sync of it after the write", v.Path())
			case !v.ErrNil(sy.fr, sy.call):
				obs.failErr(key, p.InstrPos(site.call), "the snapshot file is returned although the result of Sync is not known to be nil", v.Path(), []*ssa.Call{sy.call})
			case !hasC && stHas(st, "CX@"+w[0]):
				obs.fail(key, p.InstrPos(site.call), "the file is closed before it was synced", v.Path())
			case !hasC:
				obs.fail(key, p.InstrPos(site.call), "the file is never closed on this path", v.Path())
			case !v.ErrNil(cl.fr, cl.call):
				obs.failErr(key, p.InstrPos(site.call), "the snapshot file is returned although the result of Close is not known to be nil", v.Path(), []*ssa.Call{cl.call})
			default:
				obs.ok(key, p.InstrPos(site.call), "write, Sync (nil), Close (nil) precede the return of the snapshot file")
			}
		}
		if len(stFlags(st, "W")) == 0 {
			obs.undecided("metadata written by "+fname, p.InstrPos(in), "no file is written before the snapshot file is returned")
		}
		return st, true
	}
	s.RunFromEntry("")
	if s.Overflow {
		obs.undecided("snapshot creation in "+fname, p.Pos(fn.Pos()), "path exploration exceeded its bound")
	}
	if mkdir == nil {
		obs.lost("os.MkdirTemp in " + fname)
	}
}

func snapClose(p *Program, obs *obSet) {
	const fname = "(*snapshotFile).Close"
	fn := p.Func(fname)
	tmpFld, fileFld, finalFld := p.Field("snapshotFile.tmpDir"), p.Field("snapshotFile.file"), p.Field("snapshotFile.dir")
	if fn == nil || tmpFld == nil || fileFld == nil || finalFld == nil {
		obs.lost(fname)
		return
	}
	var sites flowSites
	var root *sframe
	var rename *ssa.Call
	s := &flowSpec{p: p, root: fn, keepCond: func(fr *sframe, c ssa.Value) bool {
		a, _ := inTmpDirTest(fr, c, fileFld, tmpFld)
		b, _ := nilTestOfField(fr, c, fileFld)
		return a || b
	}}
	const (
		kSync  = "data file Sync before the directory rename in " + fname
		kClose = "data file Close before the directory rename in " + fname
		kGuard = "directory rename only for a file living in tmpDir in " + fname
		kArgs  = "directory rename is os.Rename(tmpDir, dir) in " + fname
		kRet   = "nil return only after Sync, Close and (for a temporary directory) the rename succeeded in " + fname
	)
	pathState := func(v *flowVisit) (inTmp, notInTmp, fileNil bool) {
		v.Conds(func(fr *sframe, cond ssa.Value, truth bool) {
			if is, tm := inTmpDirTest(fr, cond, fileFld, tmpFld); is {
				if tm == truth {
					inTmp = true
				} else {
					notInTmp = true
				}
			}
			if is, tn := nilTestOfField(fr, cond, fileFld); is && tn == truth {
				fileNil = true
			}
		})
		return
	}
	s.instr = func(v *flowVisit, in ssa.Instruction) (string, bool) {
		if root == nil {
			root = v.Fr.root()
		}
		st := v.St
		if kind, f, call := fileEvent(in); kind != "" && fieldLoad(v.Fr, f, fileFld) {
			switch kind {
			case "write", "truncate":
				return stDel(st, "FS"), false
			case "sync":
				if !hasFlag(st, "FC") {
					return stAdd(stDel(st, "FS"), fmt.Sprintf("FS@%d", sites.id(v.Fr, call))), false
				}
			case "close":
				if hasFlag(st, "FS") {
					return stAdd(stDel(st, "FC"), fmt.Sprintf("FC@%d", sites.id(v.Fr, call))), false
				}
				return stAdd(st, "FCX"), false
			}
			return st, false
		}
		if c := callNamed(in, "os.Rename"); c != nil {
			a := c.Common().Args
			pos := p.InstrPos(c)
			v.Note("%s: os.Rename", pos)
			if !fieldLoad(v.Fr, a[0], tmpFld) || !fieldLoad(v.Fr, a[1], finalFld) {
				obs.fail(kArgs, pos, "the rename is not from snapshotFile.tmpDir to snapshotFile.dir", v.Path(), "from: "+describe(v.Fr, a[0]), "to: "+describe(v.Fr, a[1]))
				return st, false
			}
			obs.ok(kArgs, pos, "os.Rename(tmpDir, dir)")
			rename = c
			need := func(key, flag, what string) {
				x, present := stGet(st, flag)
				switch {
				case !present && stHas(st, flag+"X"):
					obs.fail(key, pos, "the data file is closed before it was synced", v.Path())
				case !present:
					obs.fail(key, pos, "the directory is renamed on a path with no "+what+" before it", v.Path())
				default:
					site := sites.at(x)
					if !v.ErrNil(site.fr, site.call) {
						obs.failErr(key, pos, "the directory is renamed although the result of "+siteKey(site.fr, site.call)+" is not known to be nil", v.Path(), []*ssa.Call{site.call})
					} else {
						obs.ok(key, pos, what+" with a nil result precedes the rename on every path")
					}
				}
			}
			need(kSync, "FS", "(*os.File).Sync of the data file")
			need(kClose, "FC", "(*os.File).Close of the data file")
			if inTmp, _, _ := pathState(v); inTmp {
				obs.ok(kGuard, pos, "the rename is reached only where filepath.Dir(file.Name()) == tmpDir")
			} else {
				obs.fail(kGuard, pos, "the rename is reached on a path that has not established filepath.Dir(file.Name()) == tmpDir: a snapshot opened for reading would be moved", v.Path())
			}
			return stAdd(st, fmt.Sprintf("R@%d", sites.id(v.Fr, c))), false
		}
		ret, ok := in.(*ssa.Return)
		if !ok || v.Fr != root {
			return st, false
		}
		succ, known := successReturn(ret)
		if !known || !succ {
			return st, true
		}
		inTmp, notInTmp, fileNil := pathState(v)
		if fileNil {
			return st, true // already closed: nothing to do
		}
		pos := p.InstrPos(in)
		v.Note("%s: return nil", pos)
		var involved []*ssa.Call
		good := func(flag string) bool {
			x, present := stGet(st, flag)
			if !present {
				return false
			}
			site := sites.at(x)
			involved = append(involved, site.call)
			return v.ErrNil(site.fr, site.call)
		}
		switch {
		case !good("FS") || !good("FC"):
			obs.failErr(kRet, pos, "nil is returned on a path without a successful Sync followed by a successful Close of the data file", v.Path(), involved)
		case notInTmp && !inTmp:
			obs.ok(kRet, pos, "a file outside tmpDir is synced and closed")
		case !good("R"):
			obs.failErr(kRet, pos, "nil is returned for a file in the temporary directory on a path where os.Rename(tmpDir, dir) has not succeeded", v.Path(), involved)
		default:
			obs.ok(kRet, pos, "a file in tmpDir is synced, closed and its directory renamed")
		}
		return st, true
	}
	s.RunFromEntry("")
	if s.Overflow {
		obs.undecided("close protocol in "+fname, p.Pos(fn.Pos()), "path exploration exceeded its bound")
		return
	}
	if rename == nil {
		if !obs.has(kArgs) {
			obs.lost("os.Rename(tmpDir, dir) in " + fname)
		}
		return
	}
	checkTempCleanup(p, obs, "temporary directory removed on failure in "+fname, fn, rename, func(x ssa.Value) bool {
		return fieldLoad(nil, x, tmpFld)
	})
}

func snapDiscard(p *Program, obs *obSet) {
	const fname = "(*snapshotFile).Discard"
	fn := p.Func(fname)
	tmpFld, fileFld := p.Field("snapshotFile.tmpDir"), p.Field("snapshotFile.file")
	if fn == nil || tmpFld == nil || fileFld == nil {
		obs.lost(fname)
		return
	}
	found := false
	s := &flowSpec{p: p, root: fn, keepCond: func(fr *sframe, c ssa.Value) bool {
		a, _ := inTmpDirTest(fr, c, fileFld, tmpFld)
		b, _ := nilTestOfField(fr, c, fileFld)
		return a || b
	}}
	s.instr = func(v *flowVisit, in ssa.Instruction) (string, bool) {
		c := callNamed(in, "os.RemoveAll", "os.Remove")
		if c == nil {
			return v.St, false
		}
		found = true
		key := "removal only of tmpDir and only for a non-nil file living in it: " + siteKey(v.Fr, c)
		pos := p.InstrPos(c)
		v.Note("%s: %s", pos, instrLabel(c))
		inTmp, notNil := false, false
		v.Conds(func(fr *sframe, cond ssa.Value, truth bool) {
			if is, tm := inTmpDirTest(fr, cond, fileFld, tmpFld); is && tm == truth {
				inTmp = true
			}
			if is, tn := nilTestOfField(fr, cond, fileFld); is && tn != truth {
				notNil = true
			}
		})
		switch {
		case !fieldLoad(v.Fr, c.Common().Args[0], tmpFld):
			obs.fail(key, pos, "Discard removes something other than snapshotFile.tmpDir", v.Path(), "removed: "+describe(v.Fr, c.Common().Args[0]))
		case !inTmp:
			obs.fail(key, pos, "the removal is reached on a path that has not established filepath.Dir(file.Name()) == tmpDir: a completed snapshot's file could lose its (empty-named) directory", v.Path())
		case !notNil:
			obs.fail(key, pos, "the removal is reached on a path that has not established file != nil", v.Path())
		case calleeName(c.Common()) == "os.Remove":
			obs.fail(key, pos, "tmpDir is removed with os.Remove: the directory holds the snapshot's data and metadata files, and os.Remove fails on a non-empty directory, so Discard reports an error and leaves the partial snapshot behind", v.Path())
		default:
			obs.ok(key, pos, "os.RemoveAll(tmpDir) is reached only with file != nil and filepath.Dir(file.Name()) == tmpDir")
		}
		return v.St, false
	}
	s.RunFromEntry("")
	if !found {
		obs.undecided("removal in "+fname, p.Pos(fn.Pos()), "Discard removes nothing")
	}
}

// ---------------------------------------------------------------------------------------------
// SNAP-PICK

func ruleSnapPick() *Rule {
	return &Rule{
		ID: "SNAP-PICK",
		Text: "(*persistentSnapshotStorage).SnapshotFile uses the LAST element (index len-1) of the slice returned by directories(); directories() keeps an entry only if it is a directory and its name matches a constant regexp " +
			"that contains `snapshot-`, ends with `$`, matches \"snapshot-123\" and cannot match the names os.MkdirTemp produces for unfinished snapshots; it sorts the result before returning it. The comparator is deliberately not checked (DESIGN C13).",
		Floor: 3,
		Run: func(p *Program) []Obligation {
			obs := newObSet("SNAP-PICK")
			snapPickIndex(p, obs)
			snapPickDirectories(p, obs)
			snapPickKey(p, obs)
			return obs.list()
		},
	}
}

// ruleSnapVisible: the part of SNAP-PICK that says WHICH directories count as snapshots at all, for the properties
// about what a snapshot contains (C10) and what a restart restores from (C14): a directory still being written
// (NewSnapshotFile's temporary directory, before Close renames it) is never listed, so neither SnapshotFile() — used by
// restore(), the InstallSnapshot handler and sendInstallSnapshot — can hand out a file whose label is complete and
// whose content is not.
func ruleSnapVisible() *Rule {
	return &Rule{
		ID: "SNAP-VISIBLE",
		Text: "directories() keeps an entry only if it is a directory whose name matches the constant snapshot pattern, and that pattern cannot match the names os.MkdirTemp produces in NewSnapshotFile for unfinished snapshots " +
			"(the pattern and filter clauses of SNAP-PICK; the ordering clauses are not part of this rule).",
		Floor: 2,
		Run: func(p *Program) []Obligation {
			obs := newObSet("SNAP-VISIBLE")
			snapPickDirectories(p, obs)
			var out []Obligation
			for _, o := range obs.list() {
				if strings.HasPrefix(o.Construct, "result sorted") {
					continue
				}
				out = append(out, o)
			}
			return out
		},
	}
}

// closeNamesSibling: (*snapshotFile).Close assigns the final directory field itself, to
// filepath.Join(filepath.Dir(<tmpDir field>), …): the published directory is a sibling of the temporary one, i.e. it
// lies in the snapshot directory.
func closeNamesSibling(p *Program, tmpFld, finalFld *types.Var) bool {
	fn := p.Func("(*snapshotFile).Close")
	if fn == nil {
		return false
	}
	for _, b := range fn.Blocks {
		for _, in := range b.Instrs {
			st, ok := in.(*ssa.Store)
			if !ok {
				continue
			}
			fa, ok := st.Addr.(*ssa.FieldAddr)
			if !ok || fieldOf(fa.X.Type(), fa.Field) != finalFld {
				continue
			}
			join, ok := st.Val.(*ssa.Call)
			if !ok || calleeName(join.Common()) != "path/filepath.Join" || len(join.Common().Args) != 1 {
				return false
			}
			elems := varargElems(join.Common().Args[0])
			if len(elems) < 2 {
				return false
			}
			dir, ok := elems[0].(*ssa.Call)
			if !ok || calleeName(dir.Common()) != "path/filepath.Dir" {
				return false
			}
			ld, ok := dir.Common().Args[0].(*ssa.UnOp)
			if !ok || ld.Op != token.MUL {
				return false
			}
			tfa, ok := ld.X.(*ssa.FieldAddr)
			return ok && fieldOf(tfa.X.Type(), tfa.Field) == tmpFld
		}
	}
	return false
}

// snapPickKey decides when the ordering key of a published snapshot is taken. SnapshotFile() returns the directory
// that sorts last, and the property demands "the most recent snapshot whose writer was closed": with two writers
// open at once (takeSnapshot runs with the node mutex released while InstallSnapshot may create, fill and close
// another file) the name must therefore be chosen when the writer is CLOSED. A name fixed at creation orders the
// snapshots by creation instead, so the writer that was created first and closed last loses.
func snapPickKey(p *Program, obs *obSet) {
	const key = "ordering key of a published snapshot directory is taken when its writer is closed, in (*snapshotFile).Close"
	fn := p.Func("(*snapshotFile).Close")
	if fn == nil {
		obs.lost("(*snapshotFile).Close")
		return
	}
	var ren *ssa.Call
	for _, b := range fn.Blocks {
		for _, in := range b.Instrs {
			if c := callNamed(in, "os.Rename"); c != nil {
				ren = c
			}
		}
	}
	if ren == nil {
		obs.lost("os.Rename in (*snapshotFile).Close")
		return
	}
	// does v (computed in fn) depend on a clock read made in fn or its callees?
	var clockIn func(v ssa.Value, depth int, seen map[ssa.Value]bool) bool
	var fnReadsClock func(f *ssa.Function, depth int) bool
	fnReadsClock = func(f *ssa.Function, depth int) bool {
		if f == nil || depth > 4 {
			return false
		}
		for _, b := range f.Blocks {
			for _, in := range b.Instrs {
				c, ok := in.(*ssa.Call)
				if !ok {
					continue
				}
				switch calleeName(c.Common()) {
				case "time.Now":
					return true
				}
				if cal := c.Common().StaticCallee(); cal != nil && p.InScope[cal] && fnReadsClock(cal, depth+1) {
					return true
				}
			}
		}
		return false
	}
	clockIn = func(v ssa.Value, depth int, seen map[ssa.Value]bool) bool {
		if v == nil || seen[v] || depth > 12 {
			return false
		}
		seen[v] = true
		switch x := v.(type) {
		case *ssa.Call:
			if calleeName(x.Common()) == "time.Now" {
				return true
			}
			if cal := x.Common().StaticCallee(); cal != nil && p.InScope[cal] && fnReadsClock(cal, 0) {
				return true
			}
			for _, a := range x.Common().Args {
				if clockIn(a, depth+1, seen) {
					return true
				}
			}
		case *ssa.Phi:
			for _, e := range x.Edges {
				if clockIn(e, depth+1, seen) {
					return true
				}
			}
		case *ssa.Extract:
			return clockIn(x.Tuple, depth+1, seen)
		case *ssa.BinOp:
			return clockIn(x.X, depth+1, seen) || clockIn(x.Y, depth+1, seen)
		case *ssa.Convert:
			return clockIn(x.X, depth+1, seen)
		case *ssa.MakeInterface:
			return clockIn(x.X, depth+1, seen)
		case *ssa.Slice:
			return clockIn(x.X, depth+1, seen)
		case *ssa.Alloc:
			// an array or variable: whatever is stored into it or into its elements
			if refs := x.Referrers(); refs != nil {
				for _, r := range *refs {
					switch y := r.(type) {
					case *ssa.Store:
						if y.Addr == ssa.Value(x) && clockIn(y.Val, depth+1, seen) {
							return true
						}
					case *ssa.IndexAddr:
						if y.Referrers() != nil {
							for _, rr := range *y.Referrers() {
								if st, ok := rr.(*ssa.Store); ok && clockIn(st.Val, depth+1, seen) {
									return true
								}
							}
						}
					}
				}
			}
			return false
		case *ssa.UnOp:
			if x.Op == token.MUL {
				switch ad := x.X.(type) {
				case *ssa.Alloc:
					if refs := ad.Referrers(); refs != nil {
						for _, r := range *refs {
							if st, ok := r.(*ssa.Store); ok && st.Addr == ad && clockIn(st.Val, depth+1, seen) {
								return true
							}
						}
					}
				case *ssa.IndexAddr:
					// element of a varargs array: the values stored into the array
					if al := rootAlloc(ad.X); al != nil && al.Referrers() != nil {
						for _, r := range *al.Referrers() {
							if ia, ok := r.(*ssa.IndexAddr); ok && ia.Referrers() != nil {
								for _, rr := range *ia.Referrers() {
									if st, ok := rr.(*ssa.Store); ok && clockIn(st.Val, depth+1, seen) {
										return true
									}
								}
							}
						}
					}
				}
				return false
			}
			return clockIn(x.X, depth+1, seen)
		}
		return false
	}
	newName := ren.Common().Args[1]
	if u, ok := newName.(*ssa.UnOp); ok && u.Op == token.MUL {
		if fa, ok := u.X.(*ssa.FieldAddr); ok {
			// the field may be assigned in Close itself, before the rename
			fld := fieldOf(fa.X.Type(), fa.Field)
			for _, b := range fn.Blocks {
				for _, in := range b.Instrs {
					st, ok := in.(*ssa.Store)
					if !ok {
						continue
					}
					wfa, ok := st.Addr.(*ssa.FieldAddr)
					if ok && fieldOf(wfa.X.Type(), wfa.Field) == fld && instrBlockDominates(st, ren) && clockIn(st.Val, 0, map[ssa.Value]bool{}) {
						obs.ok(key, p.InstrPos(ren), "the name the directory is published under is assigned in Close, from a clock read made there")
						return
					}
				}
			}
		}
	}
	if clockIn(newName, 0, map[ssa.Value]bool{}) {
		obs.ok(key, p.InstrPos(ren), "the name the directory is published under is computed from a clock read made in Close")
		return
	}
	// a field of the receiver written elsewhere?
	if u, ok := newName.(*ssa.UnOp); ok && u.Op == token.MUL {
		if fa, ok := u.X.(*ssa.FieldAddr); ok {
			fld := fieldOf(fa.X.Type(), fa.Field)
			var writers []string
			clockAtCreation := false
			for _, g := range p.SortedFuncs() {
				for _, b := range g.Blocks {
					for _, in := range b.Instrs {
						st, ok := in.(*ssa.Store)
						if !ok {
							continue
						}
						wfa, ok := st.Addr.(*ssa.FieldAddr)
						if !ok || fieldOf(wfa.X.Type(), wfa.Field) != fld {
							continue
						}
						writers = append(writers, FuncName(g)+" ("+p.InstrPos(in)+")")
						if g != fn && clockIn(st.Val, 0, map[ssa.Value]bool{}) {
							clockAtCreation = true
						}
					}
				}
			}
			if clockAtCreation {
				obs.fail(key, p.InstrPos(ren), "the directory is published under the name stored in field "+fld.Name()+", which is computed from the clock when the writer is CREATED ("+strings.Join(writers, ", ")+
					"): of two overlapping writers the one created last sorts last, whichever is closed last, so SnapshotFile() does not return the most recently closed snapshot", nil,
					"sequence: a := NewSnapshotFile(90,…); b := NewSnapshotFile(50,…); b.Close(); a.Close(); SnapshotFile() returns b (label 50)")
				return
			}
		}
	}
	obs.undecided(key, p.InstrPos(ren), "the provenance of the name passed to os.Rename was not recognised (neither a clock read in Close nor a field filled from the clock at creation)")
}

// instrBlockDominates: a is executed before b on every path to b.
func instrBlockDominates(a, b ssa.Instruction) bool {
	if a.Block() == b.Block() {
		for _, in := range a.Block().Instrs {
			if in == a {
				return true
			}
			if in == b {
				return false
			}
		}
		return false
	}
	return a.Block().Dominates(b.Block())
}

func snapPickIndex(p *Program, obs *obSet) {
	const fname = "(*persistentSnapshotStorage).SnapshotFile"
	fn := p.Func(fname)
	if fn == nil {
		obs.lost(fname)
		return
	}
	var list *ssa.Call
	for _, b := range fn.Blocks {
		for _, in := range b.Instrs {
			if c := callNamed(in, "(*persistentSnapshotStorage).directories"); c != nil {
				if list != nil {
					obs.undecided("element of directories() used in "+fname, p.InstrPos(c), "directories() is called more than once")
					return
				}
				list = c
			}
		}
	}
	if list == nil {
		obs.lost("call of directories() in " + fname)
		return
	}
	isList := func(v ssa.Value) bool {
		c, _ := callOf(nil, v, 0)
		return c == list
	}
	n := 0
	for _, b := range fn.Blocks {
		for _, in := range b.Instrs {
			var x, idx ssa.Value
			switch a := in.(type) {
			case *ssa.IndexAddr:
				x, idx = a.X, a.Index
			case *ssa.Index:
				x, idx = a.X, a.Index
			case *ssa.Range:
				if isList(a.X) {
					obs.undecided("element of directories() used in "+fname, p.InstrPos(in), "the list is iterated, not indexed")
				}
				continue
			default:
				continue
			}
			if !isList(x) {
				continue
			}
			n++
			key := "element of directories() used in " + fname + ordSuffix(n)
			pos := p.InstrPos(in)
			bo, ok := stripConvert(resolve(nil, idx)).(*ssa.BinOp)
			last := false
			if ok && bo.Op == token.SUB {
				if one, isConst := constIntOf(bo.Y); isConst && one == 1 {
					if l, isCall := stripConvert(bo.X).(*ssa.Call); isCall && calleeName(l.Common()) == "builtin.len" && isList(l.Common().Args[0]) {
						last = true
					}
				}
			}
			switch {
			case last:
				obs.ok(key, pos, "index is len(list)-1: the most recent snapshot")
			default:
				if k, isConst := constIntOf(stripConvert(resolve(nil, idx))); isConst {
					obs.fail(key, pos, fmt.Sprintf("the snapshot directory is taken at constant index %d of the sorted list, not at len-1: an old snapshot is restored or sent", k), nil)
				} else if _, isPhi := resolve(nil, idx).(*ssa.Phi); isPhi {
					obs.undecided(key, pos, "the index is a loop variable")
				} else {
					obs.fail(key, pos, "the snapshot directory is not taken at index len(list)-1", nil, "index: "+describe(nil, idx))
				}
			}
		}
	}
	if n == 0 && !obs.has("element of directories() used in "+fname) {
		obs.undecided("element of directories() used in "+fname, p.InstrPos(list), "the result of directories() is never indexed")
	}
}

// sliceRoots collects the cells and base values a slice value may stem from.
func sliceRoots(v ssa.Value) map[ssa.Value]bool {
	out := map[ssa.Value]bool{}
	var walk func(v ssa.Value, d int)
	walk = func(v ssa.Value, d int) {
		if v == nil || out[v] || d > 8 {
			return
		}
		out[v] = true
		switch x := v.(type) {
		case *ssa.MakeInterface:
			walk(x.X, d+1)
		case *ssa.ChangeType:
			walk(x.X, d+1)
		case *ssa.Convert:
			walk(x.X, d+1)
		case *ssa.Slice:
			walk(x.X, d+1)
		case *ssa.Phi:
			for _, e := range x.Edges {
				walk(e, d+1)
			}
		case *ssa.UnOp:
			if x.Op == token.MUL {
				if c := cellOf(x); c != nil {
					walk(c, d+1)
				}
			}
		case *ssa.Call:
			if calleeName(x.Common()) == "builtin.append" {
				walk(x.Common().Args[0], d+1)
			}
		}
	}
	walk(v, 0)
	return out
}

func sameSliceVar(a, b ssa.Value) bool {
	ra, rb := sliceRoots(a), sliceRoots(b)
	for v := range ra {
		switch v.(type) {
		case *ssa.Alloc, *ssa.MakeSlice, *ssa.Phi, *ssa.Call:
			if rb[v] {
				return true
			}
		}
	}
	return false
}

func snapPickDirectories(p *Program, obs *obSet) {
	const fname = "(*persistentSnapshotStorage).directories"
	fn := p.Func(fname)
	if fn == nil {
		obs.lost(fname)
		return
	}
	// the pattern
	kPat := "snapshot directory pattern in " + fname
	var compile *ssa.Call
	for _, b := range fn.Blocks {
		for _, in := range b.Instrs {
			if c := callNamed(in, "regexp.Compile", "regexp.MustCompile", "regexp.CompilePOSIX", "regexp.MustCompilePOSIX"); c != nil {
				compile = c
			}
		}
	}
	if compile == nil {
		obs.lost("regexp.Compile in " + fname)
		return
	}
	lit, isConst := constStringOf(compile.Common().Args[0])
	if !isConst {
		obs.undecided(kPat, p.InstrPos(compile), "the pattern is not a constant")
	} else {
		// the names unfinished snapshots carry: the constant prefix given to os.MkdirTemp plus digits
		tmpNames := []string{"tmp-snapshot123"}
		if nf := p.Func("(*persistentSnapshotStorage).NewSnapshotFile"); nf != nil {
			for _, b := range nf.Blocks {
				for _, in := range b.Instrs {
					if c := callNamed(in, "os.MkdirTemp"); c != nil {
						if pre, ok := constStringOf(c.Common().Args[1]); ok {
							if i := strings.LastIndex(pre, "*"); i >= 0 {
								tmpNames = append(tmpNames, pre[:i]+"1234567890"+pre[i+1:])
							} else {
								tmpNames = append(tmpNames, pre+"1234567890")
							}
						}
					}
				}
			}
		}
		re, err := regexp.Compile(lit)
		var bad []string
		switch {
		case err != nil:
			bad = append(bad, "it does not compile: "+err.Error())
		default:
			if !strings.Contains(lit, "snapshot-") {
				bad = append(bad, "it does not contain `snapshot-`")
			}
			if !strings.HasSuffix(lit, "$") {
				bad = append(bad, "it is not anchored at the end with `$`")
			}
			if !re.MatchString("snapshot-123") {
				bad = append(bad, `it does not match "snapshot-123"`)
			}
			for _, n := range tmpNames {
				if re.MatchString(n) {
					bad = append(bad, fmt.Sprintf("it matches %q, the name of an unfinished snapshot directory", n))
				}
			}
		}
		if len(bad) > 0 {
			obs.fail(kPat, p.InstrPos(compile), "the pattern "+strconv.Quote(lit)+" is not acceptable: "+strings.Join(bad, "; "), nil)
		} else {
			obs.ok(kPat, p.InstrPos(compile), "pattern "+strconv.Quote(lit)+" matches \"snapshot-123\" and none of "+strings.Join(tmpNames, ", "))
		}
	}
	// filter and sort
	kFilter := "entries kept only if they are directories matching the pattern in " + fname
	kSort := "result sorted before it is returned in " + fname
	s := &flowSpec{p: p, root: fn, keepCond: func(fr *sframe, c ssa.Value) bool { _, isCall := c.(*ssa.Call); return isCall }}
	appends := 0
	s.instr = func(v *flowVisit, in ssa.Instruction) (string, bool) {
		st := v.St
		if c := callNamed(in, "builtin.append"); c != nil {
			if sl, ok := c.Type().Underlying().(*types.Slice); !ok || !isStringType(sl.Elem()) {
				return st, false
			}
			appends++
			isDir, matches := false, false
			v.Conds(func(fr *sframe, cond ssa.Value, truth bool) {
				cc, ok := cond.(*ssa.Call)
				if !ok || !truth {
					return
				}
				switch calleeName(cc.Common()) {
				case "io/fs.DirEntry.IsDir", "io/fs.FileInfo.IsDir":
					isDir = true
				case "(*regexp.Regexp).MatchString", "(*regexp.Regexp).Match":
					if rc, _ := callOf(fr, cc.Common().Args[0], -1); rc == compile {
						matches = true
					}
				}
			})
			v.Note("%s: append", p.InstrPos(c))
			switch {
			case !isDir:
				obs.fail(kFilter, p.InstrPos(c), "a name is appended on a path that has not established entry.IsDir()", v.Path())
			case !matches:
				obs.fail(kFilter, p.InstrPos(c), "a name is appended on a path that has not established a match of the snapshot pattern", v.Path())
			default:
				obs.ok(kFilter, p.InstrPos(c), "append is reached only with IsDir() and MatchString(pattern) both true")
			}
			return st, false
		}
		return st, false
	}
	s.RunFromEntry("")
	if appends == 0 {
		obs.undecided(kFilter, p.Pos(fn.Pos()), "no append of a name found")
	}
	// sorted: every path from the entry to a successful return passes a sort of the returned slice
	var results []ssa.Value
	isSuccess := func(fr *sframe, in ssa.Instruction) bool {
		ret, ok := in.(*ssa.Return)
		if !ok || in.Parent() != fn {
			return false
		}
		succ, known := successReturn(ret)
		return known && succ
	}
	for _, b := range fn.Blocks {
		for _, in := range b.Instrs {
			if isSuccess(nil, in) {
				results = append(results, in.(*ssa.Return).Results[0])
			}
		}
	}
	isSort := func(fr *sframe, in ssa.Instruction) bool {
		c := callNamed(in, "sort.Slice", "sort.SliceStable", "sort.Strings", "sort.Sort", "sort.Stable", "slices.Sort", "slices.SortFunc", "slices.SortStableFunc")
		if c == nil {
			return false
		}
		for _, r := range results {
			if sameSliceVar(c.Common().Args[0], r) {
				return true
			}
		}
		return false
	}
	breach, n, overflow := mustPassBetween(p, fn, nil, isSuccess, isSort, nil)
	switch {
	case overflow:
		obs.undecided(kSort, p.Pos(fn.Pos()), "path exploration exceeded its bound")
	case n == 0:
		obs.undecided(kSort, p.Pos(fn.Pos()), "no successful return found")
	case breach != nil:
		obs.fail(kSort, p.InstrPos(breach.At), "the list is returned on a path that has not sorted it: \"the last element\" is then not the most recent snapshot", breach.Path)
	default:
		obs.ok(kSort, p.Pos(fn.Pos()), "every successful return passes a sort of the returned slice")
	}
}
