package lint

import "sort"

// AllRules is the registry of rules by id.
func AllRules() map[string]*Rule {
	m := map[string]*Rule{}
	var all []*Rule
	all = append(all,
		ruleVoteGrant(),
		ruleTermVote(),
		ruleSticky(),
		ruleLeaderEntry(),
		ruleCountVotes(),
		ruleLeaderID(),
		ruleQuorumShape(),
		ruleCommitLeader(),
		ruleCommitFollower(),
		ruleOwners(),
		ruleAppendEntries(),
		ruleConfirmCount(),
		ruleReadServe(),
		ruleReadIndex(),
		ruleLeaseBorn(),
		ruleConfGuard(),
		ruleConfFollower(),
		ruleVoteRequests(),
		ruleInstallSnapshot(),
		ruleSnapLabel(),
		ruleSender(),
		ruleApplyOrder(),
		ruleFutIndex(),
		ruleLeaderExit(),
		ruleFutResolve(),
		ruleReplyTerm(),
		ruleRoundKind(),
		ruleTermStepdown(),
	)
	all = append(all, extraRules()...)
	for _, r := range all {
		m[r.ID] = r
	}
	return m
}

// Properties maps each property to the rules that decide its structural clauses. A property
// with no rules is not claimed (it is listed under not_applicable in MANIFEST.json).
func Properties() map[string]*PropertySpec {
	specs := []*PropertySpec{
		{
			ID:       "C01",
			Rules:    []string{"COMMIT-LEADER", "QUORUM-SHAPE", "COMMIT-FOLLOWER", "OWNERS", "SENDER", "APPLY-RECHECK"},
			Thorough: []string{"AE-HANDLER", "VOTE-GRANT", "STATE-TRANSITIONS"},
			Decided: "necessary conditions of state-machine safety visible in the code on every path: a leader advances commitIndex to i only with state = Leader, term(log[i]) = currentTerm and a strict majority of voters whose matchIndex ≥ i (counter fresh per index, voters only); " +
				"a follower sets commitIndex only to Min(LeaderCommit, last index after append), monotonically, after accepting and appending; closed writer sets for commitIndex, lastApplied, StateMachine.Apply, Log.Truncate/Compact/DiscardEntries",
			NotDecided: "that these local rules imply agreement (Raft's safety proof, trusted); equality of applied bytes; behaviour under snapshots (C10/C11)",
		},
		{
			ID:       "C02",
			Rules:    []string{"VOTE-GRANT", "TERM-VOTE", "STATE-TRANSITIONS", "COUNT-VOTES", "LEADER-ID", "QUORUM-SHAPE", "ROUND-KIND", "TERM-STEPDOWN", "VOTE-REQUESTS"},
			Thorough: []string{"VOTE-REQUESTS", "STICKY"},
			Decided: "one vote per term at the grant (term equal, vote free or same candidate, log restriction) and no vote reset without a strict term increase in the same critical section; term/vote persisted (fatal on error) before the mutex is released, before any send and before return; " +
				"leader entry only inside becomeLeader from Candidate with a quorum of real, non-stale votes counted from current voters on a per-round counter (or as the single voter after a candidacy); requests carry LeaderID = id and Term = currentTerm of a leader",
			NotDecided: "the quorum-intersection argument itself; what peers do; anything about message timing",
		},
		{
			ID:         "C05",
			Rules:      []string{"READ-SERVE", "CONFIRM-QUORUM", "READ-INDEX", "QUORUM-SHAPE"},
			Thorough:   []string{"LEASE-RESET", "STATE-TRANSITIONS"},
			Decided:    "reads are selected only by a leader that committed in its term, from lastApplied, only if readIndex ≤ applied and (linearizable ⇒ quorum-verified), and exactly the selected ones are applied; verification only on a quorum of replies from current voters of a still-leader, per-round counter; the recorded read index is the commit index only after a commit in the term, else the log end",
			NotDecided: "real-time order of histories; that the stamp/round scheme VERIFY-ROUND checks is the only correct design (another design is reported as undecided, not as a violation)",
		},
		{
			ID:         "C06",
			Rules:      []string{"AE-HANDLER", "COMMIT-FOLLOWER"},
			Thorough:   []string{"OWNERS"},
			Decided:    "the handler changes nothing for a stale term; accepts only if the previous entry matches (four exact rejection cases); truncates only at a request entry that conflicts (same index, different term) of an accepted request; appends nil or a suffix of the request's entries; commit index monotone and bounded by the verified prefix; every rejection carries the back-off hint",
			NotDecided: "the global Log Matching invariant across nodes; that a truncated index is above the commit index (follows from leader completeness, not checked locally)",
		},
		{
			ID:         "C07",
			Rules:      []string{"VOTE-GRANT", "OWNERS"},
			Thorough:   []string{"STATE-TRANSITIONS", "TERM-VOTE"},
			Decided:    "the vote restriction is the lexicographic order on (lastTerm, lastIndex), identically for prevotes and real votes; only the AppendEntries handler truncates (a leader never truncates its own log); only takeSnapshot/InstallSnapshot trim the log",
			NotDecided: "the induction over terms that turns the vote restriction into leader completeness",
		},
		{
			ID:         "C08",
			Rules:      []string{"TERM-VOTE", "VOTE-GRANT", "STICKY", "REPLY-TERM"},
			Thorough:   []string{"STATE-TRANSITIONS"},
			Decided:    "every store to currentTerm is +1, ≥ currentTerm on all paths, or the value read from storage in restore; votedFor is reset only together with a strict term increase; both are persisted (fatal on error) before leaving the critical section; a prevote changes no term, vote, state, contact time or persistent state",
			NotDecided: "durability of SetState itself (C13); values seen in replies at run time",
		},
		{
			ID:       "C09",
			Rules:    []string{"CONF-CHANGE", "CONF-FOLLOW", "QUORUM-SHAPE", "COUNT-VOTES", "CONFIRM-QUORUM", "COMMIT-LEADER", "VOTE-REQUESTS", "STATE-TRANSITIONS", "SNAP-LABEL"},
			Thorough: []string{"VOTE-GRANT", "TERM-VOTE"},
			Decided: "every quorum counter (commit, votes, leadership confirmation) counts voters of the configuration in force at the moment of counting; membership changes are appended only by a leader that committed this term with no pending change, and the appended configuration becomes the one in force; " +
				"truncation falls back to the committed configuration; restore adopts configuration entries only; only voters campaign and are asked for votes",
			NotDecided: "safety of single-server changes as a protocol; content of configuration futures; one known finding (D7: followers adopt a configuration when it is applied, the leader when it is appended) is reported as KNOWN-FINDING",
		},
		{
			ID:         "C16",
			Rules:      []string{"STICKY", "STATE-TRANSITIONS", "VOTE-REQUESTS", "ROUND-KIND"},
			Decided:    "the stickiness gate (valid lease or leader contact within an election timeout) dominates every state change and every grant in the vote handler, for prevotes and real votes; prevotes write nothing; pre-candidacy writes neither term nor vote and only a prevote quorum leads to candidacy; only voters campaign",
			NotDecided: "durations, 'prompt contact', the timing argument",
		},
		{
			ID:         "C17",
			Rules:      []string{"CONFIRM-QUORUM", "READ-SERVE", "READ-INDEX", "LEASE-RESET", "STICKY"},
			Decided:    "the lease is renewed only when a round of replies from current voters reaches quorum on a still-leader (or single voter); a lease-based read is served only with a valid lease tested at serve time; a new lease is born expired and every leader entry installs a fresh one; voters holding a valid lease or recent leader contact refuse to vote",
			NotDecided: "the timing inequality itself (given as an assumption in the property)",
		},
	}
	specs = append(specs, extraSpecs()...)
	m := map[string]*PropertySpec{}
	for _, s := range specs {
		if prev, ok := m[s.ID]; ok {
			// merge rule lists contributed by other families
			prev.Rules = append(prev.Rules, s.Rules...)
			prev.Thorough = append(prev.Thorough, s.Thorough...)
			if s.Decided != "" {
				prev.Decided += "; " + s.Decided
			}
			if s.NotDecided != "" {
				prev.NotDecided += "; " + s.NotDecided
			}
			continue
		}
		m[s.ID] = s
	}
	for _, s := range m {
		s.Explanation = "Static analysis of /repo's current source (go/types + go/ssa, whole module, no execution): every obligation is an instance of a repository-specific rule on a concrete construct, evaluated on all paths and in every calling context. " +
			"Decided: " + s.Decided + ". Not decided: " + s.NotDecided + "."
	}
	return m
}

// PropertyIDs returns the sorted ids of the claimed properties.
func PropertyIDs() []string {
	var out []string
	for id, s := range Properties() {
		if len(s.Rules) > 0 {
			out = append(out, id)
		}
	}
	sort.Strings(out)
	return out
}
