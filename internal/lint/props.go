package lint

import "sort"

// AllRules is the registry of rules by id.
func AllRules() map[string]*Rule {
	m := map[string]*Rule{}
	for _, r := range append([]*Rule{
		ruleVoteGrant(),
	}, rulesStorage()...) {
		m[r.ID] = r
	}
	return m
}

// Properties maps each claimed property to the rules that decide its structural clauses.
func Properties() map[string]*PropertySpec {
	specs := []*PropertySpec{
		{
			ID:          "C02",
			Rules:       []string{"VOTE-GRANT"},
			Explanation: "static guard-fact analysis of the election code",
			Decided:     "one vote per term at the grant",
			NotDecided:  "the quorum-intersection argument; what peers do",
		},
	}
	m := map[string]*PropertySpec{}
	for _, s := range specs {
		m[s.ID] = s
	}
	return m
}

// PropertyIDs returns the sorted ids of the claimed properties.
func PropertyIDs() []string {
	var out []string
	for id := range Properties() {
		out = append(out, id)
	}
	sort.Strings(out)
	return out
}
