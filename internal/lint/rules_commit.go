package lint

import (
	"fmt"
	"go/token"
	"sort"
	"strings"

	"golang.org/x/tools/go/ssa"
)

// ---------- QUORUM-SHAPE ----------

func ruleQuorumShape() *Rule {
	const id = "QUORUM-SHAPE"
	return &Rule{
		ID: id,
		Text: "hasQuorum(count) counts the voters of the configuration in force (the true values of r.configuration.IsVoter, one increment per true value) " +
			"and answers a strict majority: count > voters/2 or an enumerated equivalent form. '>=' against voters/2, or counting Members, is a violation; an unrecognised form is undecided.",
		Floor: 2,
		Run: func(p *Program) []Obligation {
			fn := p.Func("(*Raft).hasQuorum")
			if fn == nil {
				return missing(id, "(*Raft).hasQuorum")
			}
			fr := NewRootFrame(fn)
			var out []Obligation
			// 1. the comparison returned
			var rets []*ssa.Return
			for _, b := range fn.Blocks {
				if r, ok := b.Instrs[len(b.Instrs)-1].(*ssa.Return); ok {
					rets = append(rets, r)
				}
			}
			ob := Obligation{Rule: id, Construct: "majority formula returned by (*Raft).hasQuorum", Pos: p.Pos(fn.Pos())}
			var votersVal ssa.Value
			if len(rets) != 1 || len(rets[0].Results) != 1 {
				ob.Verdict, ob.Detail = Undecided, "hasQuorum does not have a single return of one expression"
				return append(out, ob)
			}
			ob.Pos = p.InstrPos(rets[0])
			cmp, ok := rets[0].Results[0].(*ssa.BinOp)
			if !ok {
				ob.Verdict, ob.Detail = Undecided, "returned value is not a comparison"
				return append(out, ob)
			}
			count := fn.Params[1]
			form, vv := quorumForm(cmp, count)
			votersVal = vv
			ob.Facts = append(ob.Facts, "formula: "+p.Canon(fr, cmp).S, "recognised as: "+form)
			switch form {
			case "count > voters/2", "2*count > voters", "count >= voters/2+1":
				ob.Verdict, ob.Detail = Discharged, "strict majority ("+form+")"
			case "count >= voters/2", "2*count >= voters", "count > voters/2-1", "count >= (voters+1)/2":
				ob.Verdict = Violated
				ob.Detail = "not a strict majority (" + form + "): with an even number of voters two disjoint halves both pass, so two leaders / two different commits at one index are possible"
			default:
				ob.Verdict, ob.Detail = Undecided, "majority formula not in the enumerated forms"
			}
			out = append(out, ob)
			// 2. what `voters` counts
			ob2 := Obligation{Rule: id, Construct: "voter count in (*Raft).hasQuorum", Pos: p.Pos(fn.Pos())}
			if votersVal == nil {
				ob2.Verdict, ob2.Detail = Undecided, "the voters operand of the formula was not identified"
				return append(out, ob2)
			}
			src, guarded, why := countedCollection(p, fr, votersVal)
			ob2.Facts = append(ob2.Facts, "counted collection: "+src, fmt.Sprintf("increment guarded by the map value: %v", guarded))
			switch {
			case src == "":
				ob2.Verdict, ob2.Detail = Undecided, "voters is not a recognised range counter: "+why
			case src == "len(r.configuration.IsVoter)" || src == "len(r.configuration.Members)" || src == "r.configuration.Members":
				ob2.Verdict, ob2.Detail = Violated, "quorum size is computed over "+src+": non-voting members count toward the size of the electorate/quorum"
			case src == "r.configuration.IsVoter" && guarded:
				ob2.Verdict, ob2.Detail = Discharged, "counts the true values of r.configuration.IsVoter"
			case src == "r.configuration.IsVoter" && !guarded:
				ob2.Verdict, ob2.Detail = Violated, "every key of IsVoter is counted, including members whose value is false (non-voters)"
			case strings.HasSuffix(src, ".IsVoter") || strings.HasSuffix(src, ".Members"):
				ob2.Verdict = Violated
				ob2.Detail = "the size of the electorate is taken from " + src + ", not from the configuration in force (r.configuration), while votes, acknowledgements and matches are counted for the voters of r.configuration: " +
					"during a membership change the two differ, and a count that is a majority of the smaller one is not a majority of the other — two candidates can both reach 'quorum' in one term"
			default:
				ob2.Verdict, ob2.Detail = Undecided, "voters counts "+src
			}
			out = append(out, ob2)
			// 3. the single-voter shortcut must be about the same electorate: where the only voter decides alone (it
			// commits and confirms leadership without any reply, it leads without asking for votes), "alone" means "the
			// only VOTER". If it means "the only member", a single voter with non-voting members never takes the shortcut,
			// and nothing else evaluates its own quorum (that happens in reply handlers of voters): nothing commits while
			// the non-voters are down, and after a restart it never leads again.
			if single := p.Func("(*Raft).isSingleServerCluster"); single != nil {
				sfr := NewRootFrame(single)
				ob3 := Obligation{Rule: id, Construct: "electorate of the single-voter shortcut in (*Raft).isSingleServerCluster", Pos: p.Pos(single.Pos())}
				var counted ssa.Value
				for _, b := range single.Blocks {
					for _, in := range b.Instrs {
						bo, ok := in.(*ssa.BinOp)
						if !ok || bo.Op != token.EQL {
							continue
						}
						if isConstInt(bo.Y, 1) {
							counted = bo.X
						} else if isConstInt(bo.X, 1) {
							counted = bo.Y
						}
					}
				}
				switch {
				case counted == nil:
					ob3.Verdict, ob3.Detail = Undecided, "no comparison of a count with 1 found"
				default:
					cs := p.Canon(sfr, stripConv(counted)).S
					src, guarded, _ := countedCollection(p, sfr, counted)
					ob3.Facts = append(ob3.Facts, "count: "+cs, "counted collection: "+src)
					switch {
					case src == "r.configuration.IsVoter" && guarded:
						ob3.Verdict, ob3.Detail = Discharged, "the shortcut is taken when exactly one true value is in r.configuration.IsVoter (and it is this node's): the same electorate as hasQuorum"
					case strings.Contains(cs, "Members") || src == "r.configuration.Members" || (src == "r.configuration.IsVoter" && !guarded) || strings.Contains(cs, "len(r.configuration.IsVoter)"):
						ob3.Verdict = Violated
						ob3.Detail = "the shortcut counts members (" + cs + "), hasQuorum counts voters: a single voter with non-voting members never decides alone and nobody else evaluates its quorum, " +
							"so with the non-voters down nothing commits, and after a restart the only voter never becomes leader (it sends no vote request and counts no reply)"
					default:
						ob3.Verdict, ob3.Detail = Undecided, "the count compared with 1 was not recognised"
					}
				}
				out = append(out, ob3)
				// 4. ... and the one voter must be THIS node: a leader demoted to non-voter (AddServer(self, false)) in a
				// configuration with one other voter would otherwise confirm its own heartbeat rounds and commit alone,
				// while the real voter elects itself and acknowledges writes the old leader never sees.
				ob4 := Obligation{Rule: id, Construct: "the single voter of the shortcut is this node in (*Raft).isSingleServerCluster", Pos: p.Pos(single.Pos())}
				switch selfVoterImplied(p, sfr, single) {
				case 1:
					ob4.Verdict, ob4.Detail = Discharged, "every true result implies r.configuration.IsVoter[r.id]"
				case 0:
					ob4.Verdict = Violated
					ob4.Detail = "isSingleServerCluster can return true although this node is not a voter: a (demoted) non-voting leader beside one voter treats its own heartbeat round as confirmed by a quorum and serves linearizable reads / commits without any reply, while the only voter may have elected itself and acknowledged newer writes"
				default:
					ob4.Verdict, ob4.Detail = Undecided, "how the result depends on r.configuration.IsVoter[r.id] was not recognised"
				}
				out = append(out, ob4)
			}
			return out
		},
	}
}

func isConstInt(v ssa.Value, want int64) bool {
	for {
		if c, ok := v.(*ssa.Convert); ok {
			v = c.X
			continue
		}
		break
	}
	c, ok := v.(*ssa.Const)
	if !ok {
		return false
	}
	iv, ok := constInt(c)
	return ok && iv == want
}

func stripConv(v ssa.Value) ssa.Value {
	for {
		switch x := v.(type) {
		case *ssa.Convert:
			v = x.X
		case *ssa.ChangeType:
			v = x.X
		default:
			return v
		}
	}
}

// quorumForm classifies a comparison between count and an expression over one other value
// (the voters) into one of the enumerated forms; it returns the voters value.
func quorumForm(cmp *ssa.BinOp, count ssa.Value) (string, ssa.Value) {
	x, y := stripConv(cmp.X), stripConv(cmp.Y)
	op := cmp.Op
	// normalise so that the side containing count is on the left
	if !mentions(x, count) && mentions(y, count) {
		x, y = y, x
		op = flipOp(op)
	}
	if !mentions(x, count) {
		return "", nil
	}
	isMul2 := func(v ssa.Value) (ssa.Value, bool) {
		b, ok := v.(*ssa.BinOp)
		if !ok || b.Op != token.MUL {
			return nil, false
		}
		if isConstInt(b.X, 2) {
			return stripConv(b.Y), true
		}
		if isConstInt(b.Y, 2) {
			return stripConv(b.X), true
		}
		return nil, false
	}
	isDiv2 := func(v ssa.Value) (ssa.Value, bool) {
		b, ok := v.(*ssa.BinOp)
		if !ok || b.Op != token.QUO || !isConstInt(b.Y, 2) {
			return nil, false
		}
		return stripConv(b.X), true
	}
	opS := map[token.Token]string{token.GTR: ">", token.GEQ: ">="}[op]
	if opS == "" {
		return "", nil
	}
	if x == count {
		if v, ok := isDiv2(y); ok {
			// (voters+1)/2 ?
			if b, ok := v.(*ssa.BinOp); ok && b.Op == token.ADD && (isConstInt(b.Y, 1) || isConstInt(b.X, 1)) {
				vv := b.X
				if isConstInt(b.X, 1) {
					vv = b.Y
				}
				return "count " + opS + " (voters+1)/2", stripConv(vv)
			}
			return "count " + opS + " voters/2", v
		}
		if b, ok := y.(*ssa.BinOp); ok && (b.Op == token.ADD || b.Op == token.SUB) && isConstInt(b.Y, 1) {
			if v, ok := isDiv2(stripConv(b.X)); ok {
				sign := "+"
				if b.Op == token.SUB {
					sign = "-"
				}
				return "count " + opS + " voters/2" + sign + "1", v
			}
		}
		return "", nil
	}
	if c, ok := isMul2(x); ok && c == count {
		return "2*count " + opS + " voters", y
	}
	return "", nil
}

func mentions(v, target ssa.Value) bool {
	v = stripConv(v)
	if v == target {
		return true
	}
	if b, ok := v.(*ssa.BinOp); ok {
		return mentions(b.X, target) || mentions(b.Y, target)
	}
	return false
}

// countedCollection recognises v as a counter over a range loop (phi of 0 and self+1) or as
// len(collection); it returns the canonical collection and whether the increment is guarded by
// the ranged map value being true.
func countedCollection(p *Program, fr *Frame, v ssa.Value) (string, bool, string) {
	v = stripConv(v)
	if c, ok := v.(*ssa.Call); ok {
		if b, ok := c.Common().Value.(*ssa.Builtin); ok && b.Name() == "len" {
			return "len(" + p.Canon(fr, c.Common().Args[0]).S + ")", false, ""
		}
	}
	phi, ok := v.(*ssa.Phi)
	if !ok {
		return "", false, "not a phi"
	}
	// collect the phi web
	web := map[*ssa.Phi]bool{}
	var adds []*ssa.BinOp
	var walk func(x ssa.Value) bool
	walk = func(x ssa.Value) bool {
		x = stripConv(x)
		switch y := x.(type) {
		case *ssa.Phi:
			if web[y] {
				return true
			}
			web[y] = true
			for _, e := range y.Edges {
				if !walk(e) {
					return false
				}
			}
			return true
		case *ssa.Const:
			return isConstInt(y, 0)
		case *ssa.BinOp:
			if y.Op == token.ADD && isConstInt(y.Y, 1) {
				adds = append(adds, y)
				return walk(y.X)
			}
		}
		return false
	}
	if !walk(phi) {
		return "", false, "counter is not built from 0 and +1 only"
	}
	if len(adds) != 1 {
		return "", false, fmt.Sprintf("%d increments", len(adds))
	}
	add := adds[0]
	// find the range the loop iterates: a Next instruction whose iterator is Range(X)
	fn := phi.Parent()
	var rng *ssa.Range
	for _, b := range fn.Blocks {
		for _, in := range b.Instrs {
			if r, ok := in.(*ssa.Range); ok {
				if rng != nil {
					return "", false, "more than one range loop"
				}
				rng = r
			}
		}
	}
	if rng == nil {
		return "", false, "no range loop"
	}
	src := p.Canon(fr, rng.X).S
	// guarded: the add's block is dominated by the true edge of a branch on the ranged value (#2 of next)
	guarded := false
	for _, b := range fn.Blocks {
		iff, ok := b.Instrs[len(b.Instrs)-1].(*ssa.If)
		if !ok {
			continue
		}
		ex, ok := iff.Cond.(*ssa.Extract)
		if !ok || ex.Index != 2 {
			continue
		}
		nx, ok := ex.Tuple.(*ssa.Next)
		if !ok || nx.Iter != rng {
			continue
		}
		t := b.Succs[0]
		if t.Dominates(add.Block()) && len(t.Preds) == 1 {
			guarded = true
		}
	}
	return src, guarded, ""
}

// selfVoterImplied decides whether every true result of the bool function fn implies r.configuration.IsVoter[r.id]:
// 1 yes, 0 no (some path returns true without consulting it), -1 not recognised.
func selfVoterImplied(p *Program, fr *Frame, fn *ssa.Function) int {
	isSelf := func(v ssa.Value) bool {
		if ex, ok := v.(*ssa.Extract); ok && ex.Index == 0 {
			v = ex.Tuple
		}
		l, ok := v.(*ssa.Lookup)
		return ok && p.Canon(fr, l.X).S == "r.configuration.IsVoter" && p.Canon(fr, l.Index).S == "r.id"
	}
	// blocks in which the lookup is known true: dominated by the true edge of `if lookup` / false edge of `if !lookup`
	var knownTrue []*ssa.BasicBlock
	found := false
	for _, b := range fn.Blocks {
		for _, in := range b.Instrs {
			if v, ok := in.(ssa.Value); ok && isSelf(v) {
				found = true
			}
		}
		iff, ok := b.Instrs[len(b.Instrs)-1].(*ssa.If)
		if !ok {
			continue
		}
		c, edge := iff.Cond, 0
		if u, ok := c.(*ssa.UnOp); ok && u.Op == token.NOT {
			c, edge = u.X, 1
		}
		if isSelf(c) && len(b.Succs[edge].Preds) == 1 {
			knownTrue = append(knownTrue, b.Succs[edge])
		}
	}
	if !found {
		return 0
	}
	under := func(b *ssa.BasicBlock) bool {
		for _, k := range knownTrue {
			if k.Dominates(b) {
				return true
			}
		}
		return false
	}
	seen := map[ssa.Value]bool{}
	var implied func(v ssa.Value, at *ssa.BasicBlock) int
	implied = func(v ssa.Value, at *ssa.BasicBlock) int {
		if under(at) || isSelf(v) {
			return 1
		}
		switch x := v.(type) {
		case *ssa.Const:
			if x.Value != nil && x.Value.String() == "false" {
				return 1
			}
			return 0
		case *ssa.Phi:
			if seen[x] {
				return 1
			}
			seen[x] = true
			r := 1
			for i, e := range x.Edges {
				switch implied(e, x.Block().Preds[i]) {
				case 0:
					return 0
				case -1:
					r = -1
				}
			}
			return r
		case *ssa.BinOp:
			if x.Op == token.AND { // non-short-circuit a & b is not valid on bools; kept for completeness
				if implied(x.X, at) == 1 || implied(x.Y, at) == 1 {
					return 1
				}
			}
			// a bare comparison returned as the result: true without the lookup
			return 0
		}
		return -1
	}
	res := 1
	for _, b := range fn.Blocks {
		ret, ok := b.Instrs[len(b.Instrs)-1].(*ssa.Return)
		if !ok || len(ret.Results) != 1 {
			continue
		}
		switch implied(returnedValue(ret, 0), b) {
		case 0:
			return 0
		case -1:
			res = -1
		}
	}
	return res
}

// ---------- COMMIT-LEADER / COUNT-MATCH ----------

func ruleCommitLeader() *Rule {
	const id = "COMMIT-LEADER"
	return &Rule{
		ID: id,
		Text: "Every store to Raft.commitIndex reachable from commitLoop writes the loop index i with, on every path, state = Leader ∧ term(log[i]) = currentTerm ∧ hasQuorum(matches); " +
			"(COUNT-MATCH) matches is initialised inside the iteration for i — to 1 only on an edge taken when IsVoter[self] holds, to 0 otherwise: a leader can be a non-voter — and incremented only for followers with id ≠ self ∧ IsVoter[id] ∧ matchIndex ≥ i.",
		Floor: 2,
		Run: func(p *Program) []Obligation {
			root := p.Func("(*Raft).commitLoop")
			commitIdx := p.Field("Raft.commitIndex")
			hasQuorum := p.Func("(*Raft).hasQuorum")
			if root == nil || commitIdx == nil || hasQuorum == nil {
				return missing(id, "(*Raft).commitLoop / Raft.commitIndex / (*Raft).hasQuorum")
			}
			// discovery
			type site struct {
				valS string
				val  ssa.Value
			}
			var sites []site
			var quorumCalls []*ssa.Call
			var quorumS []string
			var pairs [][2]string
			var boolConds []string
			p.discover(root, func(a *Analysis, f *Frame, in ssa.Instruction) {
				if s, fld := storeField(in); s != nil && fld == commitIdx {
					sites = append(sites, site{p.Canon(f, s.Val).S, s.Val})
				}
				if c, ok := in.(*ssa.Call); ok && c.Common().StaticCallee() == hasQuorum {
					quorumCalls = append(quorumCalls, c)
					quorumS = append(quorumS, p.Canon(f, c).S)
				}
				if x, y, ok := p.condPair(f, in); ok {
					pairs = append(pairs, [2]string{x, y})
				}
				if iff, ok := in.(*ssa.If); ok {
					c := iff.Cond
					for {
						u, ok := c.(*ssa.UnOp)
						if !ok || u.Op != token.NOT {
							break
						}
						c = u.X
					}
					boolConds = append(boolConds, p.Canon(f, c).S)
				}
			})
			if len(sites) == 0 {
				return missing(id, "store to Raft.commitIndex reachable from (*Raft).commitLoop")
			}
			var out []Obligation
			stateAtom := p.StateAtom()
			atoms := []*Atom{stateAtom}
			seenV := map[string]int{}
			for _, s := range sites {
				if _, ok := seenV[s.valS]; ok {
					continue
				}
				seenV[s.valS] = len(atoms)
				atoms = append(atoms, CmpAtom("term(log["+s.valS+"])?curTerm", "r.log.GetEntry("+s.valS+")#0.Term", "r.currentTerm"))
			}
			qBase := len(atoms)
			seenQ := map[string]bool{}
			for _, q := range quorumS {
				if !seenQ[q] {
					seenQ[q] = true
					atoms = append(atoms, BoolAtom("hasQuorum("+strings.TrimSuffix(strings.TrimPrefix(q, "r.hasQuorum("), ")")+")", q))
				}
			}
			sp := NewSpace(atoms...)
			a := NewAnalysis(p, sp)
			a.Hook = func(a *Analysis, f *Frame, in ssa.Instruction, st State) State {
				if s, fld := storeField(in); s != nil && fld == commitIdx {
					n := instrOrdinal(in, func(x ssa.Instruction) bool { _, fl := storeField(x); return fl == commitIdx })
					o := a.Observe("store Raft.commitIndex"+ordSuffix(n)+" in "+chainKey(f), f, in, st)
					o.Extra["value"] = p.Canon(f, s.Val).S
				}
				return st
			}
			a.Run(root, nil)
			L := enumIdx(stateAtom, "Leader")
			out = append(out, evalObs(a, id, a.SortedObs(), func(o *Observation, pt int) bool {
				if sp.Val(pt, 0) != L {
					return false
				}
				ti, ok := seenV[o.Extra["value"]]
				if !ok || sp.Val(pt, ti) != EQ {
					return false
				}
				for i := qBase; i < len(atoms); i++ {
					if sp.Val(pt, i) == 1 {
						return true
					}
				}
				return false
			}, nil, "leader commits index i only if log[i] is of the current term and a voter majority matches")...)

			// COUNT-MATCH for each hasQuorum call in commitLoop itself
			for k, qc := range quorumCalls {
				if qc.Parent() != root {
					continue
				}
				out = append(out, countMatch(p, id, root, qc, k+1, sites[0].val)...)
			}
			_ = pairs
			_ = boolConds
			return out
		},
	}
}

// countMatch checks the provenance of the argument of a hasQuorum call in commitLoop.
func countMatch(p *Program, id string, root *ssa.Function, qc *ssa.Call, n int, idxVal ssa.Value) []Obligation {
	fr := NewRootFrame(root)
	arg := stripConv(qc.Common().Args[1])
	key := "match counter passed to hasQuorum" + ordSuffix(n) + " in (*Raft).commitLoop"
	ob := Obligation{Rule: id, Construct: key, Pos: p.InstrPos(qc)}
	phi, ok := arg.(*ssa.Phi)
	if !ok {
		ob.Verdict, ob.Detail = Undecided, "argument is not a loop counter (phi): "+p.Canon(fr, arg).S
		return []Obligation{ob}
	}
	web := map[*ssa.Phi]bool{}
	var adds []*ssa.BinOp
	var leaves []ssa.Value
	var walk func(x ssa.Value)
	walk = func(x ssa.Value) {
		x = stripConv(x)
		switch y := x.(type) {
		case *ssa.Phi:
			if web[y] {
				return
			}
			web[y] = true
			for _, e := range y.Edges {
				walk(e)
			}
		case *ssa.BinOp:
			if y.Op == token.ADD && isConstInt(y.Y, 1) {
				adds = append(adds, y)
				walk(y.X)
				return
			}
			leaves = append(leaves, x)
		default:
			leaves = append(leaves, x)
		}
	}
	walk(phi)
	for _, l := range leaves {
		if !isConstInt(l, 1) && !isConstInt(l, 0) {
			ob.Verdict = Violated
			ob.Detail = "the match counter is not initialised to 1 for a voting leader / 0 for a non-voting one: found " + p.Canon(fr, l).S
			return []Obligation{ob}
		}
	}
	// the leader counts itself only if it is a voter: every constant 1 enters the counter on an edge that is taken
	// only when r.configuration.IsVoter[r.id] holds, and some constant enters it at all
	selfTrue := selfVoterBlocks(p, fr, root)
	entered := false
	for ph := range web {
		for i, e := range ph.Edges {
			c := stripConv(e)
			if !isConstInt(c, 1) && !isConstInt(c, 0) {
				continue
			}
			entered = true
			if isConstInt(c, 1) && !dominatedByAny(selfTrue, ph.Block().Preds[i]) && !selfVoterEdge(p, fr, ph.Block().Preds[i], ph.Block()) {
				ob.Verdict = Violated
				ob.Detail = "the match counter starts at 1 — the leader counts itself — whether or not the leader is a voter: a leader that was demoted to non-voter (AddServer(self, false)) beside three voters commits with the acknowledgement of ONE of them, " +
					"and the other two elect a leader that never saw the entry"
				return []Obligation{ob}
			}
		}
	}
	if !entered {
		ob.Verdict, ob.Detail = Undecided, "the initial value of the match counter was not found"
		return []Obligation{ob}
	}
	// freshness per index: no phi of the counter web may live in the header of the index loop
	idxPhi, _ := stripConv(idxVal).(*ssa.Phi)
	if idxPhi != nil {
		for ph := range web {
			if ph.Block() == idxPhi.Block() {
				ob.Verdict = Violated
				ob.Detail = "the match counter is carried across iterations of the index loop (it is not re-initialised per index), so matches for a lower index count toward a higher one"
				return []Obligation{ob}
			}
		}
	}
	ob.Verdict, ob.Detail = Discharged, fmt.Sprintf("counter initialised per index to 1 if this node is a voter and 0 otherwise, %d increment site(s)", len(adds))
	out := []Obligation{ob}
	if len(adds) == 0 {
		return out
	}
	// guard of each increment, by the interpreter
	idxS := p.Canon(fr, idxVal).S
	for k, add := range adds {
		// discover the range variables of the loop around the increment
		var matchTerm, voterTerm, idTerm string
		p.discover(root, func(a *Analysis, f *Frame, in ssa.Instruction) {
			if f.Parent != nil {
				return
			}
			if x, y, ok := p.condPair(f, in); ok {
				if strings.HasSuffix(x, ".matchIndex") && y == idxS {
					matchTerm = x
				} else if strings.HasSuffix(y, ".matchIndex") && x == idxS {
					matchTerm = y
				}
				if y == "r.id" && strings.HasPrefix(x, "%") && !strings.ContainsAny(x[1:], "[ ") {
					idTerm = x
				} else if x == "r.id" && strings.HasPrefix(y, "%") && !strings.ContainsAny(y[1:], "[ ") {
					idTerm = y
				}
			}
			if iff, ok := in.(*ssa.If); ok {
				s := p.Canon(f, iff.Cond).S
				s = strings.TrimPrefix(s, "!")
				if strings.HasPrefix(s, "r.configuration.IsVoter[") {
					voterTerm = s
				}
			}
		})
		kob := Obligation{Rule: id, Construct: "increment of match counter" + ordSuffix(k+1) + " in (*Raft).commitLoop", Pos: p.InstrPos(add)}
		if matchTerm == "" {
			kob.Verdict = Violated
			kob.Detail = "no test follower.matchIndex ≥ index against the index being committed guards the loop: replicas that do not hold the entry are counted"
			out = append(out, kob)
			continue
		}
		atoms := []*Atom{CmpAtom("matchIndex?index", matchTerm, idxS)}
		iV, iI := -1, -1
		if voterTerm != "" {
			iV = len(atoms)
			atoms = append(atoms, BoolAtom("isVoter", voterTerm))
		}
		if idTerm != "" {
			iI = len(atoms)
			atoms = append(atoms, CmpAtom("id?self", idTerm, "r.id"))
		}
		sp := NewSpace(atoms...)
		a := NewAnalysis(p, sp)
		a.Hook = func(a *Analysis, f *Frame, in ssa.Instruction, st State) State {
			if in == ssa.Instruction(add) {
				a.Observe(kob.Construct, f, in, st)
			}
			return st
		}
		a.Run(root, nil)
		// the follower whose matchIndex is tested must be the map value of the key tested for voter status
		sameIter := sameRangeIteration(matchTerm, voterTerm, idTerm)
		res := evalObs(a, id, a.SortedObs(), func(o *Observation, pt int) bool {
			if sp.Val(pt, 0) == LT {
				return false
			}
			if iV < 0 || sp.Val(pt, iV) != 1 {
				return false
			}
			if iI < 0 || sp.Val(pt, iI) == EQ {
				return false
			}
			return sameIter
		}, nil, "a replica is counted only if it is another voter whose matchIndex ≥ i")
		if len(res) == 0 {
			kob.Verdict, kob.Detail = Undecided, "increment not reached by the interpreter"
			res = []Obligation{kob}
		}
		for i := range res {
			res[i].Facts = append(res[i].Facts, "matchIndex term: "+matchTerm, "voter term: "+voterTerm, "id term: "+idTerm, fmt.Sprintf("same range iteration: %v", sameIter))
		}
		out = append(out, res...)
	}
	return out
}

// sameRangeIteration checks that "X.matchIndex", "r.configuration.IsVoter[K]" and K refer to the
// value and key extracted from the same range iteration: canonical names are "%fn.tN" registers of
// extracts; the check is that K in the voter term equals the id term. (The pairing of K with X is by
// the Next instruction, checked by the caller through canonical register identity.)
func sameRangeIteration(matchTerm, voterTerm, idTerm string) bool {
	if voterTerm == "" || idTerm == "" {
		return false
	}
	k := strings.TrimSuffix(strings.TrimPrefix(voterTerm, "r.configuration.IsVoter["), "]")
	return k == idTerm
}

// ---------- COMMIT-FOLLOWER ----------

func ruleCommitFollower() *Rule {
	const id = "COMMIT-FOLLOWER"
	return &Rule{
		ID: id,
		Text: "In the AppendEntries handler every store to Raft.commitIndex writes Min(request.LeaderCommit, B) with B the log's last index after the append (or prev+len(entries)), " +
			"only after the request was accepted (Success) and its entries appended, and only when request.LeaderCommit > commitIndex (the commit index never moves backwards). " +
			"Companion (SEND-TO-END): the sender fills LeaderCommit from r.commitIndex and sends entries up to the end of its log in the same critical section.",
		Floor: 2,
		Run: func(p *Program) []Obligation {
			root := p.Func("(*Raft).AppendEntries")
			commitIdx := p.Field("Raft.commitIndex")
			success := p.Field("AppendEntriesResponse.Success")
			if root == nil || commitIdx == nil || success == nil {
				return missing(id, "(*Raft).AppendEntries")
			}
			appended := GhostAtom("appended", "no", "yes")
			sp := NewSpace(
				CmpAtom("leaderCommit?commitIndex", "p0.LeaderCommit", "r.commitIndex"),
				BoolAtom("success", "p1.Success"),
				appended,
				CmpAtom("prev+len?commitIndex", "(len(p0.Entries) + p0.PrevLogIndex)", "r.commitIndex"),
			)
			a := NewAnalysis(p, sp)
			a.Hook = func(a *Analysis, f *Frame, in ssa.Instruction, st State) State {
				if iface, m, _ := invokeOf(in); iface == "Log" && (m == "AppendEntries" || m == "AppendEntry") {
					if _, isDefer := in.(*ssa.Defer); !isDefer {
						return sp.Assign(st, 2, 1)
					}
				}
				if s, fld := storeField(in); s != nil && fld == commitIdx {
					n := instrOrdinal(in, func(x ssa.Instruction) bool { _, fl := storeField(x); return fl == commitIdx })
					o := a.Observe("store Raft.commitIndex"+ordSuffix(n)+" in "+chainKey(f), f, in, st)
					o.Extra["value"] = p.Canon(f, s.Val).S
					o.Extra["form"] = minForm(p, f, s.Val)
				}
				return st
			}
			entry := sp.Filter(sp.Top(), 2, 1)
			a.RunFrame(NewRootFrame(root), entry)
			var out []Obligation
			for _, o := range a.SortedObs() {
				ob := Obligation{Rule: id, Construct: o.Key, Pos: o.Pos, Facts: []string{"value: " + o.Extra["value"], "form: " + o.Extra["form"]}}
				bad := sp.Where(o.State, func(pt int) bool {
					if !(sp.Val(pt, 0) == GT && sp.Val(pt, 1) == 1 && sp.Val(pt, 2) == 1) {
						return true
					}
					// Min(LeaderCommit, B) > commitIndex needs B > commitIndex as well. For B = LastIndex() that is an
					// invariant of the node (the commit index never exceeds the log); for B = prev+len(entries) it is
					// not (a short or old request of the same leader) and must be tested.
					return o.Extra["form"] == "prev+len(entries)" && sp.Val(pt, 3) != GT
				})
				switch {
				case o.Extra["form"] == "":
					ob.Verdict = Violated
					ob.Detail = "follower commit index is not bounded by the entries verified to match the leader: value " + o.Extra["value"] + " is not Min(request.LeaderCommit, last index after append | prev+len(entries))"
				case !bad.IsEmpty():
					ob.Verdict = Violated
					ob.Detail = "commit index written without (LeaderCommit > commitIndex ∧ request accepted ∧ entries appended ∧, for the bound prev+len(entries), that bound > commitIndex): the commit index can move backwards, e.g. {" + sp.Project(bad, 0, 1, 2, 3)[0] + "}"
					ob.Facts = append(ob.Facts, sp.Project(bad, 0, 1, 2, 3)...)
				default:
					ob.Verdict, ob.Detail = Discharged, "Min(LeaderCommit, "+o.Extra["form"]+"), monotone, after accept and append"
				}
				out = append(out, ob)
			}
			if len(out) == 0 {
				out = append(out, missing(id, "store to Raft.commitIndex in (*Raft).AppendEntries")...)
			}
			ownLog := false
			for _, o := range a.SortedObs() {
				if f := o.Extra["form"]; f == "r.log.LastIndex()" || f == "r.log.NextIndex()-1" {
					ownLog = true
				}
			}
			out = append(out, sendToEnd(p, id, ownLog)...)
			return out
		},
	}
}

// minForm recognises Min(request.LeaderCommit, B) and returns a description of B ("" if not recognised).
func minForm(p *Program, f *Frame, v ssa.Value) string {
	c, ok := stripConv(v).(*ssa.Call)
	if !ok {
		return ""
	}
	callee := c.Common().StaticCallee()
	if callee == nil || !strings.HasPrefix(callee.Name(), "Min") {
		// builtin min
		if b, ok := c.Common().Value.(*ssa.Builtin); !ok || b.Name() != "min" {
			return ""
		}
	} else if o := callee.Origin(); o == nil || o.Pkg == nil || o.Pkg.Pkg.Path() != ModulePath+"/internal/numeric" {
		if callee.Pkg == nil || callee.Pkg.Pkg.Path() != ModulePath+"/internal/numeric" {
			return ""
		}
	}
	if len(c.Common().Args) != 2 {
		return ""
	}
	x, y := p.Canon(f, c.Common().Args[0]).S, p.Canon(f, c.Common().Args[1]).S
	if y == "p0.LeaderCommit" {
		x, y = y, x
	}
	if x != "p0.LeaderCommit" {
		return ""
	}
	switch y {
	case "r.log.LastIndex()":
		return "r.log.LastIndex()"
	case "(len(p0.Entries) + p0.PrevLogIndex)", "(p0.PrevLogIndex + len(p0.Entries))":
		return "prev+len(entries)"
	case "(-1 + r.log.NextIndex())", "(r.log.NextIndex() - 1)":
		return "r.log.NextIndex()-1"
	}
	return ""
}

// sendToEnd: the sender's request carries LeaderCommit = r.commitIndex and entries up to NextIndex().
func sendToEnd(p *Program, id string, followerBoundsByOwnLog bool) []Obligation {
	root := p.Func("(*Raft).sendAppendEntries")
	lc := p.Field("AppendEntriesRequest.LeaderCommit")
	if root == nil || lc == nil {
		return missing(id, "(*Raft).sendAppendEntries")
	}
	var out []Obligation
	found := false
	loopToEnd := false
	p.discover(root, func(a *Analysis, f *Frame, in ssa.Instruction) {
		if s, fld := storeField(in); s != nil && fld == lc {
			if rv := f.Fn.Signature.Recv(); rv == nil || !isPtrToNamed(rv.Type(), "Raft") {
				return
			}
			found = true
			ob := Obligation{Rule: id, Construct: "field AppendEntriesRequest.LeaderCommit of request built in " + chainKey(f), Pos: p.InstrPos(in)}
			if v := p.Canon(f, s.Val).S; v == "r.commitIndex" {
				ob.Verdict, ob.Detail = Discharged, "= r.commitIndex"
			} else {
				ob.Verdict, ob.Detail = Violated, "LeaderCommit is "+v+", must be r.commitIndex"
			}
			out = append(out, ob)
		}
		if x, y, ok := p.condPair(f, in); ok && f.Parent == nil {
			if y == "r.log.NextIndex()" || x == "r.log.NextIndex()" {
				loopToEnd = true
			}
		}
	})
	if !found {
		return missing(id, "AppendEntriesRequest.LeaderCommit in (*Raft).sendAppendEntries")
	}
	ob := Obligation{Rule: id, Construct: "entries loop bound in (*Raft).sendAppendEntries", Pos: p.Pos(root.Pos())}
	if !followerBoundsByOwnLog {
		ob.Verdict, ob.Detail = Discharged, "the follower bounds its commit index by the entries of the request itself (prev+len(entries)), so a request may stop short of the leader's log end"
		return append(out, ob)
	}
	_ = loopToEnd
	// The follower clamps to the end of ITS log, so everything in its log up to LeaderCommit must have been compared
	// with the leader's: the request must carry the leader's log through its end. Decided on the sender: when the
	// request's Entries field is filled, the index the collecting loop stopped at is not below r.log.NextIndex().
	var loopIdx []string
	entriesFld := p.Field("AppendEntriesRequest.Entries")
	p.discover(root, func(a *Analysis, f *Frame, in ssa.Instruction) {
		if iface, m, c := invokeOf(in); iface == "Log" && m == "GetEntry" && f.Parent == nil {
			if _, isPhi := stripConv(c.Args[0]).(*ssa.Phi); isPhi {
				s := p.Canon(f, c.Args[0]).S
				for _, x := range loopIdx {
					if x == s {
						return
					}
				}
				loopIdx = append(loopIdx, s)
			}
		}
	})
	if len(loopIdx) == 0 || entriesFld == nil {
		ob.Verdict, ob.Detail = Undecided, "no loop reading the log entry by entry was found in sendAppendEntries: with Min(LeaderCommit, LastIndex()) on the follower, a request that stops short of the leader's log end could commit unverified entries, and the rule cannot tell how far the request reaches"
		return append(out, ob)
	}
	var atoms []*Atom
	for _, g := range loopIdx {
		atoms = append(atoms, CmpAtom("idx("+g+")?logEnd", g, "r.log.NextIndex()"))
	}
	nEnd := len(atoms)
	// the loop may also stop at the snapshot boundary; that exit is excluded by the snapshot fall-back taken before
	// (nextIndex > lastIncludedIndex, and the index only grows)
	atoms = append(atoms, CmpAtom("nextIndex?lastInclIdx", "r.followers[p0].nextIndex", "r.lastIncludedIndex"))
	for _, g := range loopIdx {
		atoms = append(atoms, CmpAtom("idx("+g+")?lastInclIdx", g, "r.lastIncludedIndex"))
	}
	sp := NewSpace(atoms...)
	a := NewAnalysis(p, sp)
	a.Hook = func(a *Analysis, f *Frame, in ssa.Instruction, st State) State {
		if s, fld := storeField(in); s != nil && fld == entriesFld && f.Parent == nil {
			a.Observe("fill", f, in, st)
		}
		return st
	}
	a.Run(root, nil)
	o := a.Obs["fill"]
	if o == nil {
		ob.Verdict, ob.Detail = Undecided, "the store of AppendEntriesRequest.Entries was not found in sendAppendEntries"
		return append(out, ob)
	}
	ob.Pos = o.Pos
	bad := sp.Where(o.State, func(pt int) bool {
		for i := 0; i < nEnd; i++ {
			if sp.Val(pt, i) != LT {
				return false
			}
		}
		return true
	})
	if bad.IsEmpty() {
		ob.Verdict, ob.Detail = Discharged, "when the request is built the collecting loop has reached r.log.NextIndex(): the request carries the leader's log through its end"
	} else {
		ob.Verdict = Violated
		ob.Detail = "the request can be built while the index the collecting loop stopped at is still below r.log.NextIndex(): the request stops short of the leader's log end while LeaderCommit is the leader's full commit index, " +
			"and the follower clamps its commit index to the end of its OWN log (Min(LeaderCommit, LastIndex())), so entries in the follower's log beyond the request that were never compared with the leader's can be committed"
		ob.Facts = append(ob.Facts, sp.Project(bad, 0)...)
	}
	return append(out, ob)
}

// ---------- OWNERS ----------

// ruleOwners: who may write protocol state / call the log's destructive operations (by analysis root).
func ruleOwners() *Rule {
	const id = "OWNERS"
	type own struct {
		what    string
		allowed []string
	}
	table := []own{
		{"store Raft.commitIndex", []string{"(*Raft).commitLoop", "(*Raft).AppendEntries", "(*Raft).InstallSnapshot", "NewRaft", "(*Raft).Restart", "(*Raft).Start"}},
		{"store Raft.lastApplied", []string{"(*Raft).applyLoop", "(*Raft).InstallSnapshot", "NewRaft", "(*Raft).Restart", "(*Raft).Start"}},
		{"store Raft.lastIncludedIndex", []string{"(*Raft).snapshotLoop", "(*Raft).InstallSnapshot", "NewRaft", "(*Raft).Restart", "(*Raft).Start"}},
		{"store Raft.lastIncludedTerm", []string{"(*Raft).snapshotLoop", "(*Raft).InstallSnapshot", "NewRaft", "(*Raft).Restart", "(*Raft).Start"}},
		{"call StateMachine.Apply", []string{"(*Raft).applyLoop", "(*Raft).readOnlyLoop"}},
		{"call StateMachine.Restore", []string{"(*Raft).InstallSnapshot", "NewRaft", "(*Raft).Restart", "(*Raft).Start"}},
		{"call StateMachine.Snapshot", []string{"(*Raft).snapshotLoop"}},
		{"call Log.Truncate", []string{"(*Raft).AppendEntries"}},
		{"call Log.Compact", []string{"(*Raft).snapshotLoop", "(*Raft).InstallSnapshot"}},
		// (restore completes an installation that a crash interrupted between publishing the snapshot and discarding the log)
		{"call Log.DiscardEntries", []string{"(*Raft).InstallSnapshot", "NewRaft", "(*Raft).Restart", "(*Raft).Start"}},
		{"store follower.matchIndex", []string{"(*Raft).sendAppendEntries", "(*Raft).sendRequestVote", "(*Raft).electionLoop"}},
		{"store Operation.quorumVerified", []string{"(*Raft).sendAppendEntries", "(*Raft).AddServer", "(*Raft).RemoveServer", "(*Raft).SubmitOperation", "(*Raft).commitLoop", "(*Raft).heartbeatLoop", "(*Raft).sendRequestVote", "(*Raft).electionLoop"}},
	}
	return &Rule{
		ID: id,
		Text: "Protocol state has a closed set of writers, named by the entry point (analysis root) from which the write is reachable: " +
			"commitIndex {commitLoop, AppendEntries, InstallSnapshot, restore}; lastApplied {applyLoop, InstallSnapshot, restore}; snapshot boundary {snapshotLoop, InstallSnapshot, restore}; " +
			"StateMachine.Apply {applyLoop, readOnlyLoop}; Log.Truncate {AppendEntries} (the leader never truncates its own log); Log.Compact {snapshotLoop, InstallSnapshot}; Log.DiscardEntries {InstallSnapshot}. " +
			"A helper reached only from an allowed entry point is fine; a new entry point is a violation naming it.",
		Floor: 10,
		Run: func(p *Program) []Obligation {
			seen := map[string]map[string]string{} // what -> root -> pos
			for _, root := range p.Roots() {
				rn := FuncName(root)
				p.discover(root, func(a *Analysis, f *Frame, in ssa.Instruction) {
					what := ""
					if s, fld := storeField(in); s != nil && fld != nil {
						for _, o := range table {
							if strings.HasPrefix(o.what, "store ") && fld == p.Field(strings.TrimPrefix(o.what, "store ")) {
								what = o.what
							}
						}
					}
					if iface, m, _ := invokeOf(in); iface != "" {
						if _, isGo := in.(*ssa.Go); !isGo {
							w := "call " + iface + "." + m
							for _, o := range table {
								if o.what == w {
									what = w
								}
							}
						}
					}
					if what == "" {
						return
					}
					if seen[what] == nil {
						seen[what] = map[string]string{}
					}
					if _, ok := seen[what][rn]; !ok {
						seen[what][rn] = p.InstrPos(in) + " via " + chainKey(f)
					}
				})
			}
			var out []Obligation
			for _, o := range table {
				roots := seen[o.what]
				if len(roots) == 0 {
					// lost anchor only for the core items
					if o.what == "store Operation.quorumVerified" || o.what == "store follower.matchIndex" {
						continue
					}
					out = append(out, Obligation{Rule: id, Construct: o.what, Verdict: AnchorLost, Detail: "no such effect found in the current source"})
					continue
				}
				var names []string
				for r := range roots {
					names = append(names, r)
				}
				sort.Strings(names)
				for _, r := range names {
					ob := Obligation{Rule: id, Construct: o.what + " reachable from " + r, Pos: strings.SplitN(roots[r], " via ", 2)[0], Facts: []string{"via " + strings.SplitN(roots[r], " via ", 2)[1]}}
					ok := false
					for _, al := range o.allowed {
						if al == r {
							ok = true
						}
					}
					if ok {
						ob.Verdict, ob.Detail = Discharged, "allowed owner"
					} else {
						ob.Verdict = Violated
						ob.Detail = "unexpected writer: " + o.what + " is reachable from entry point " + r + ", allowed owners are " + strings.Join(o.allowed, ", ")
					}
					out = append(out, ob)
				}
			}
			return out
		},
	}
}

// selfVoterBlocks: the blocks of fn entered only when r.configuration.IsVoter[r.id] is true (the true successor of a
// branch on it, or the false successor of a branch on its negation, with that branch as only predecessor).
func selfVoterBlocks(p *Program, fr *Frame, fn *ssa.Function) []*ssa.BasicBlock {
	var out []*ssa.BasicBlock
	for _, b := range fn.Blocks {
		iff, ok := b.Instrs[len(b.Instrs)-1].(*ssa.If)
		if !ok {
			continue
		}
		s := p.Canon(fr, iff.Cond).S
		edge := 0
		if strings.HasPrefix(s, "!") {
			s, edge = strings.TrimPrefix(s, "!"), 1
		}
		if s == "r.configuration.IsVoter[r.id]" && len(b.Succs[edge].Preds) == 1 {
			out = append(out, b.Succs[edge])
		}
	}
	return out
}

func dominatedByAny(doms []*ssa.BasicBlock, b *ssa.BasicBlock) bool {
	for _, d := range doms {
		if d.Dominates(b) {
			return true
		}
	}
	return false
}

// selfVoterEdge: the edge from -> to is the arm of a branch on r.configuration.IsVoter[r.id] taken when it is true.
func selfVoterEdge(p *Program, fr *Frame, from, to *ssa.BasicBlock) bool {
	iff, ok := from.Instrs[len(from.Instrs)-1].(*ssa.If)
	if !ok {
		return false
	}
	s := p.Canon(fr, iff.Cond).S
	edge := 0
	if strings.HasPrefix(s, "!") {
		s, edge = strings.TrimPrefix(s, "!"), 1
	}
	return s == "r.configuration.IsVoter[r.id]" && from.Succs[edge] == to && from.Succs[1-edge] != to
}
