// Package lint is the repository-specific static checker for jmsadair/raft.
//
// Everything in here decides facts about the type-checked program, its SSA form
// or its call graph. Nothing executes the library.
package lint

import (
	"fmt"
	"go/ast"
	"go/token"
	"go/types"
	"os"
	"sort"
	"strings"

	"golang.org/x/tools/go/packages"
	"golang.org/x/tools/go/ssa"
	"golang.org/x/tools/go/ssa/ssautil"
)

const ModulePath = "github.com/jmsadair/raft"

// Program is the loaded, type-checked, SSA-built module.
type Program struct {
	RepoDir string
	Fset    *token.FileSet
	Pkgs    []*packages.Package // module packages only
	All     []*packages.Package
	SSA     *ssa.Program
	Raft    *ssa.Package // github.com/jmsadair/raft
	RaftPkg *packages.Package

	// InScope holds every function (declared, method, or anonymous) of the module
	// that is analysed. Functions declared in a file that imports "testing" are excluded.
	InScope  map[*ssa.Function]bool
	Excluded int
	// AddedDeclared counts declared functions that ssautil.AllFunctions does not reach (unreferenced methods).
	AddedDeclared int
	// DeadDeclared lists unexported declared methods that nothing in the module references (callable from tests only).
	DeadDeclared []string
	// ExcludedFiles lists the files excluded by the imports-testing criterion.
	ExcludedFiles []string

	byName map[string]*ssa.Function

	pure      map[*ssa.Function]*pureInfo
	effects   map[*ssa.Function]*EffectSummary
	noReturn  map[*ssa.Function]bool
	Callers   map[*ssa.Function][]*CallSite
	GoTargets map[*ssa.Function]bool
}

// CallSite is one static call (or go/defer) of an in-scope function.
type CallSite struct {
	Caller *ssa.Function
	Instr  ssa.CallInstruction
	Callee *ssa.Function
}

// LoadError is a failure that prevents any verdict (exit 2).
type LoadError struct{ Msg string }

func (e *LoadError) Error() string { return e.Msg }

// Load type-checks and builds SSA for the module rooted at dir.
func Load(dir string) (*Program, error) {
	env := append(os.Environ(),
		"GOFLAGS=-mod=mod", "GOPROXY=off", "GOSUMDB=off", "GOWORK=off", "GOTOOLCHAIN=local",
	)
	cfg := &packages.Config{
		Mode:  packages.LoadAllSyntax,
		Dir:   dir,
		Tests: false,
		Env:   env,
	}
	pkgs, err := packages.Load(cfg, "./...")
	if err != nil {
		return nil, &LoadError{"packages.Load: " + err.Error()}
	}
	var errs []string
	packages.Visit(pkgs, nil, func(p *packages.Package) {
		for _, e := range p.Errors {
			errs = append(errs, e.Error())
		}
	})
	if len(errs) > 0 {
		return nil, &LoadError{"type errors: " + strings.Join(errs, "; ")}
	}
	p := &Program{RepoDir: dir, All: pkgs}
	for _, pk := range pkgs {
		if pk.PkgPath == ModulePath || strings.HasPrefix(pk.PkgPath, ModulePath+"/") {
			p.Pkgs = append(p.Pkgs, pk)
		}
		if pk.PkgPath == ModulePath {
			p.RaftPkg = pk
		}
	}
	if p.RaftPkg == nil {
		return nil, &LoadError{"package " + ModulePath + " not found under " + dir}
	}
	if len(p.Pkgs) < 5 {
		return nil, &LoadError{fmt.Sprintf("only %d module packages loaded, expected at least 5", len(p.Pkgs))}
	}
	p.Fset = p.RaftPkg.Fset
	prog, _ := ssautil.AllPackages(pkgs, ssa.InstantiateGenerics)
	prog.Build()
	p.SSA = prog
	p.Raft = prog.Package(p.RaftPkg.Types)
	if p.Raft == nil {
		return nil, &LoadError{"no SSA package for " + ModulePath}
	}
	p.computeScope()
	p.index()
	return p, nil
}

// computeScope fills InScope by the structural criterion: a function is out of scope
// iff the file that declares it imports the package "testing".
func (p *Program) computeScope() {
	p.InScope = map[*ssa.Function]bool{}
	p.byName = map[string]*ssa.Function{}
	excludedFile := map[string]bool{}
	for _, pk := range p.Pkgs {
		for i, f := range pk.Syntax {
			for _, imp := range f.Imports {
				if imp.Path.Value == `"testing"` {
					name := pk.CompiledGoFiles[i]
					excludedFile[name] = true
				}
			}
		}
	}
	for f := range excludedFile {
		p.ExcludedFiles = append(p.ExcludedFiles, strings.TrimPrefix(f, p.RepoDir+"/"))
	}
	sort.Strings(p.ExcludedFiles)
	modPkgs := map[*types.Package]bool{}
	for _, pk := range p.Pkgs {
		modPkgs[pk.Types] = true
	}
	all := ssautil.AllFunctions(p.SSA)
	// AllFunctions visits package-level functions, the methods of types that are converted to an interface somewhere,
	// and what those reference. A declared method it does not reach is one that nothing in the module calls and whose
	// receiver is never boxed. If it is exported it is API and is added; if it is unexported only *_test.go files can
	// call it: it is dead code of the library, stays out of scope (it would otherwise be analysed as an entry point
	// nobody can enter) and is listed in DeadDeclared.
	for _, pk := range p.Pkgs {
		for i, f := range pk.Syntax {
			if excludedFile[pk.CompiledGoFiles[i]] {
				continue
			}
			for _, d := range f.Decls {
				fd, ok := d.(*ast.FuncDecl)
				if !ok || fd.Body == nil {
					continue
				}
				obj, ok := pk.TypesInfo.Defs[fd.Name].(*types.Func)
				if !ok {
					continue
				}
				fn := p.SSA.FuncValue(obj)
				if fn == nil || all[fn] || (fn.TypeParams().Len() > 0 && len(fn.TypeArgs()) == 0) {
					continue
				}
				if !ast.IsExported(fd.Name.Name) {
					p.DeadDeclared = append(p.DeadDeclared, FuncName(fn))
					continue
				}
				var add func(f *ssa.Function)
				add = func(f *ssa.Function) {
					if all[f] {
						return
					}
					all[f] = true
					p.AddedDeclared++
					for _, a := range f.AnonFuncs {
						add(a)
					}
				}
				add(fn)
			}
		}
	}
	sort.Strings(p.DeadDeclared)
	for fn := range all {
		if fn.Synthetic != "" && fn.Syntax() == nil && fn.Origin() == nil {
			continue
		}
		var pkgT *types.Package
		if fn.Pkg != nil {
			pkgT = fn.Pkg.Pkg
		} else if o := fn.Origin(); o != nil && o.Pkg != nil {
			pkgT = o.Pkg.Pkg
		} else if par := fn.Parent(); par != nil {
			q := par
			for q.Parent() != nil {
				q = q.Parent()
			}
			if q.Pkg != nil {
				pkgT = q.Pkg.Pkg
			} else if o := q.Origin(); o != nil && o.Pkg != nil {
				pkgT = o.Pkg.Pkg
			}
		}
		if pkgT == nil || !modPkgs[pkgT] {
			continue
		}
		if fn.Blocks == nil {
			continue
		}
		pos := fn.Pos()
		if !pos.IsValid() {
			if s := fn.Syntax(); s != nil {
				pos = s.Pos()
			}
		}
		file := ""
		if pos.IsValid() {
			file = p.Fset.Position(pos).Filename
		}
		if excludedFile[file] {
			p.Excluded++
			continue
		}
		// Generic origins are analysed through their instantiations only.
		if fn.TypeParams().Len() > 0 && len(fn.TypeArgs()) == 0 {
			continue
		}
		p.InScope[fn] = true
		p.byName[FuncName(fn)] = fn
	}
}

// FuncName renders a function the way rules name them: "(*Raft).RequestVote",
// "NewRaft", "(*Raft).nextConfiguration$1", "fileutil.RemoveTmpFiles".
func FuncName(fn *ssa.Function) string {
	if fn == nil {
		return "<nil>"
	}
	if par := fn.Parent(); par != nil {
		// anonymous: parent name + $n
		n := fn.Name()
		if i := strings.LastIndex(n, "$"); i >= 0 {
			return FuncName(par) + n[i:]
		}
		return FuncName(par) + "$" + n
	}
	name := fn.Name()
	pkgPrefix := ""
	var pk *types.Package
	if fn.Pkg != nil {
		pk = fn.Pkg.Pkg
	} else if o := fn.Origin(); o != nil && o.Pkg != nil {
		pk = o.Pkg.Pkg
	}
	if pk != nil && pk.Path() != ModulePath {
		pkgPrefix = pk.Name() + "."
	}
	if recv := fn.Signature.Recv(); recv != nil {
		t := recv.Type()
		ptr := ""
		if pt, ok := t.(*types.Pointer); ok {
			ptr = "*"
			t = pt.Elem()
		}
		tn := t.String()
		if nt, ok := t.(*types.Named); ok {
			tn = nt.Obj().Name()
			if nt.Obj().Pkg() != nil && nt.Obj().Pkg().Path() != ModulePath {
				tn = nt.Obj().Pkg().Name() + "." + tn
			}
		}
		return "(" + ptr + tn + ")." + name
	}
	return pkgPrefix + name
}

// Func returns the in-scope function with the given rule name, or nil.
func (p *Program) Func(name string) *ssa.Function { return p.byName[name] }

// FuncNames returns the sorted names of all in-scope functions.
func (p *Program) FuncNames() []string {
	var out []string
	for n := range p.byName {
		out = append(out, n)
	}
	sort.Strings(out)
	return out
}

// Pos renders a position relative to the repository root.
func (p *Program) Pos(pos token.Pos) string {
	if !pos.IsValid() {
		return "?"
	}
	q := p.Fset.Position(pos)
	return fmt.Sprintf("%s:%d", strings.TrimPrefix(q.Filename, p.RepoDir+"/"), q.Line)
}

// InstrPos finds the best position for an instruction (falls back to operands / block).
func (p *Program) InstrPos(in ssa.Instruction) string {
	if in == nil {
		return "?"
	}
	if in.Pos().IsValid() {
		return p.Pos(in.Pos())
	}
	// fall back: any operand with a position
	var ops []*ssa.Value
	for _, op := range in.Operands(ops) {
		if *op != nil {
			if i, ok := (*op).(ssa.Instruction); ok && i.Pos().IsValid() {
				return p.Pos(i.Pos())
			}
		}
	}
	// fall back: nearest earlier instruction in the block
	b := in.Block()
	if b != nil {
		last := token.NoPos
		for _, i := range b.Instrs {
			if i == in {
				break
			}
			if i.Pos().IsValid() {
				last = i.Pos()
			}
		}
		if last.IsValid() {
			return p.Pos(last)
		}
		return p.Pos(b.Parent().Pos())
	}
	return "?"
}

// NamedType looks up a named type of package raft.
func (p *Program) NamedType(name string) *types.Named {
	o := p.RaftPkg.Types.Scope().Lookup(name)
	if o == nil {
		return nil
	}
	n, _ := o.Type().(*types.Named)
	return n
}

// Field looks up "Type.field" in package raft and returns the field object.
func (p *Program) Field(spec string) *types.Var {
	i := strings.Index(spec, ".")
	if i < 0 {
		return nil
	}
	n := p.NamedType(spec[:i])
	if n == nil {
		return nil
	}
	st, ok := n.Underlying().(*types.Struct)
	if !ok {
		return nil
	}
	for k := 0; k < st.NumFields(); k++ {
		if st.Field(k).Name() == spec[i+1:] {
			return st.Field(k)
		}
	}
	return nil
}

// IfaceMethod looks up "Iface.Method" in package raft.
func (p *Program) IfaceMethod(spec string) *types.Func {
	i := strings.Index(spec, ".")
	n := p.NamedType(spec[:i])
	if n == nil {
		return nil
	}
	it, ok := n.Underlying().(*types.Interface)
	if !ok {
		return nil
	}
	for k := 0; k < it.NumMethods(); k++ {
		if it.Method(k).Name() == spec[i+1:] {
			return it.Method(k)
		}
	}
	return nil
}

// ConstVal returns the integer value of a package-level constant of package raft.
func (p *Program) ConstVal(name string) (int64, bool) {
	o := p.RaftPkg.Types.Scope().Lookup(name)
	c, ok := o.(*types.Const)
	if !ok {
		return 0, false
	}
	s := c.Val().ExactString()
	var v int64
	if _, err := fmt.Sscanf(s, "%d", &v); err != nil {
		return 0, false
	}
	return v, true
}

// index computes callers, go-targets, no-return functions.
func (p *Program) index() {
	p.Callers = map[*ssa.Function][]*CallSite{}
	p.GoTargets = map[*ssa.Function]bool{}
	p.noReturn = map[*ssa.Function]bool{}
	p.pure = map[*ssa.Function]*pureInfo{}
	for fn := range p.InScope {
		for _, b := range fn.Blocks {
			for _, in := range b.Instrs {
				ci, ok := in.(ssa.CallInstruction)
				if !ok {
					continue
				}
				callee := ci.Common().StaticCallee()
				if callee == nil {
					// method value closures: go r.loop() is static; bound methods wrap.
					continue
				}
				if _, isGo := in.(*ssa.Go); isGo {
					p.GoTargets[callee] = true
				}
				if p.InScope[callee] {
					p.Callers[callee] = append(p.Callers[callee], &CallSite{Caller: fn, Instr: ci, Callee: callee})
				}
			}
		}
	}
	// no-return: logging.(*Logger).Fatal / Fatalf verified structurally: Fatal's last
	// call on its fall-through path is os.Exit; Fatalf ends in a call to a no-return function.
	changed := true
	for changed {
		changed = false
		for fn := range p.InScope {
			if p.noReturn[fn] {
				continue
			}
			if p.endsInNoReturn(fn) {
				p.noReturn[fn] = true
				changed = true
			}
		}
	}
}

// endsInNoReturn reports whether fn contains, in a block that ends with a plain return and is
// not the early-return arm of a level test, a call to os.Exit / a no-return function
// as its last call. This matches logging.(*Logger).Fatal ("if level > Fatal {return}; print; os.Exit(1)").
func (p *Program) endsInNoReturn(fn *ssa.Function) bool {
	if fn.Pkg == nil || fn.Pkg.Pkg.Path() != ModulePath+"/logging" {
		return false
	}
	// every block that returns must either have called os.Exit (or another no-return function) just before, or be the
	// "silenced" exit of the level guard `level > <largest level>`: that guard never holds, because a level is only ever
	// stored after a range check (rule OPTION-RANGE decides exactly that premise and fails if it is lost).
	exits, others := 0, 0
	for _, b := range fn.Blocks {
		if len(b.Instrs) == 0 {
			continue
		}
		if _, ok := b.Instrs[len(b.Instrs)-1].(*ssa.Return); !ok {
			continue
		}
		exited := false
		for i := len(b.Instrs) - 2; i >= 0; i-- {
			c, ok := b.Instrs[i].(*ssa.Call)
			if !ok {
				continue
			}
			if callee := c.Common().StaticCallee(); callee != nil {
				if callee.Pkg != nil && callee.Pkg.Pkg.Path() == "os" && callee.Name() == "Exit" {
					exited = true
				}
				if p.noReturn[callee] {
					exited = true
				}
			}
			break
		}
		if exited {
			exits++
			continue
		}
		// the silenced exit: sole predecessor ends in `if <level field> > const` and this block is its true successor
		silenced := false
		if len(b.Preds) == 1 && len(b.Instrs) == 1 {
			pb := b.Preds[0]
			if iff, ok := pb.Instrs[len(pb.Instrs)-1].(*ssa.If); ok && pb.Succs[0] == b {
				if bo, ok := iff.Cond.(*ssa.BinOp); ok && bo.Op == token.GTR {
					if _, isConst := bo.Y.(*ssa.Const); isConst {
						if u, ok := bo.X.(*ssa.UnOp); ok && u.Op == token.MUL {
							if fa, ok := u.X.(*ssa.FieldAddr); ok && fieldOf(fa.X.Type(), fa.Field).Name() == "level" {
								silenced = true
							}
						}
					}
				}
			}
		}
		if !silenced {
			others++
		}
	}
	return exits > 0 && others == 0
}

// IsNoReturnCall reports whether the call never returns (Fatal*, os.Exit, panic).
func (p *Program) IsNoReturnCall(c *ssa.CallCommon) bool {
	if b, ok := c.Value.(*ssa.Builtin); ok && b.Name() == "panic" {
		return true
	}
	callee := c.StaticCallee()
	if callee == nil {
		return false
	}
	if p.noReturn[callee] {
		return true
	}
	if callee.Pkg != nil && callee.Pkg.Pkg.Path() == "os" && callee.Name() == "Exit" {
		return true
	}
	return false
}

// NoReturnFuncs lists the verified no-return functions.
func (p *Program) NoReturnFuncs() []string {
	var out []string
	for fn := range p.noReturn {
		out = append(out, FuncName(fn))
	}
	sort.Strings(out)
	return out
}

// DeclOf returns the syntax of a declared function.
func DeclOf(fn *ssa.Function) *ast.FuncDecl {
	if d, ok := fn.Syntax().(*ast.FuncDecl); ok {
		return d
	}
	return nil
}

// EnclosingDeclared returns the outermost declared function that lexically contains fn.
func EnclosingDeclared(fn *ssa.Function) *ssa.Function {
	for fn.Parent() != nil {
		fn = fn.Parent()
	}
	return fn
}

// SortedFuncs returns in-scope functions sorted by name.
func (p *Program) SortedFuncs() []*ssa.Function {
	var out []*ssa.Function
	for fn := range p.InScope {
		out = append(out, fn)
	}
	sort.Slice(out, func(i, j int) bool { return FuncName(out[i]) < FuncName(out[j]) })
	return out
}
