package lint

import (
	"go/token"
	"go/types"
	"sort"

	"golang.org/x/tools/go/ssa"
)

// handleTypes: the objects the API hands to its callers, who use them from goroutines of their choosing. (Result values
// are immutable once built; the future is the one handle with state.)
var handleTypes = []string{"future"}

// ruleHandleSync: HANDLE-SYNC (C20).
//
// LOCKSET covers what the node mutex, the transport mutex and the connection manager's mutex guard. A Future is none of
// these: SubmitOperation / AddServer / RemoveServer return it to the caller, and nothing says one goroutine only may
// wait for it. Every field of the handle that one of its methods writes must be accessed, in every method, with a mutex
// of the same receiver held.
//
// D40: Await() cached the result in f.response with nothing held; two goroutines waiting for one future raced on it
// (and the one that lost the channel receive reported ErrTimeout for an operation that had succeeded).
func ruleHandleSync() *Rule {
	const id = "HANDLE-SYNC"
	return &Rule{
		ID: id,
		Text: "For every handle type the API returns to its callers (future): each field that a method of the type stores to is read and written, in every method of the type, " +
			"only after a Lock() of a sync.Mutex field of the same receiver that dominates the access and is not undone by an Unlock() before it.",
		Floor: 2,
		Run: func(p *Program) []Obligation {
			var out []Obligation
			for _, tn := range handleTypes {
				named := p.NamedType(tn)
				if named == nil {
					out = append(out, missing(id, "type "+tn)...)
					continue
				}
				origin := named.Origin().Obj()
				isRecv := func(t types.Type) bool {
					if ptr, ok := types.Unalias(t).(*types.Pointer); ok {
						t = ptr.Elem()
					}
					n, ok := types.Unalias(t).(*types.Named)
					return ok && n.Origin().Obj() == origin
				}
				var methods []*ssa.Function
				for _, fn := range p.SortedFuncs() {
					if fn.Signature.Recv() != nil && isRecv(fn.Signature.Recv().Type()) && len(fn.Params) > 0 && len(fn.Blocks) > 0 {
						methods = append(methods, fn)
					}
				}
				if len(methods) == 0 {
					out = append(out, missing(id, "methods of "+tn)...)
					continue
				}
				recvField := func(fn *ssa.Function, addr ssa.Value) (string, types.Type, bool) {
					fa, ok := addr.(*ssa.FieldAddr)
					if !ok || fa.X != ssa.Value(fn.Params[0]) {
						return "", nil, false
					}
					st, ok := types.Unalias(fa.X.Type()).(*types.Pointer).Elem().Underlying().(*types.Struct)
					if !ok {
						return "", nil, false
					}
					f := st.Field(fa.Field)
					return f.Name(), f.Type(), true
				}
				written := map[string]bool{}
				for _, fn := range methods {
					for _, b := range fn.Blocks {
						for _, in := range b.Instrs {
							if s, ok := in.(*ssa.Store); ok {
								if name, _, ok := recvField(fn, s.Addr); ok {
									written[name] = true
								}
							}
						}
					}
				}
				for _, fn := range methods {
					// Lock / Unlock calls on a sync.Mutex field of the receiver
					var locks, unlocks []*ssa.Call
					for _, b := range fn.Blocks {
						for _, in := range b.Instrs {
							c, ok := in.(*ssa.Call)
							if !ok || c.Common().StaticCallee() == nil || len(c.Common().Args) != 1 {
								continue
							}
							_, ft, ok := recvField(fn, c.Common().Args[0])
							if !ok || !isSyncType(ft) {
								continue
							}
							switch c.Common().StaticCallee().Name() {
							case "Lock":
								locks = append(locks, c)
							case "Unlock":
								unlocks = append(unlocks, c)
							}
						}
					}
					held := func(at ssa.Instruction) bool {
						for _, l := range locks {
							if !(l.Block() == at.Block() && instrIndex(l) < instrIndex(at)) && !(l.Block() != at.Block() && l.Block().Dominates(at.Block())) {
								continue
							}
							undone := false
							for _, u := range unlocks {
								if instrReaches(l, u) && instrReaches(u, at) {
									undone = true
								}
							}
							if !undone {
								return true
							}
						}
						return false
					}
					type acc struct {
						field, mode string
					}
					seen := map[acc]*Obligation{}
					var keys []acc
					for _, b := range fn.Blocks {
						for _, in := range b.Instrs {
							var addr ssa.Value
							mode := ""
							switch x := in.(type) {
							case *ssa.Store:
								addr, mode = x.Addr, "write"
							case *ssa.UnOp:
								if x.Op == token.MUL {
									addr, mode = x.X, "read"
								}
							}
							if addr == nil {
								continue
							}
							name, _, ok := recvField(fn, addr)
							if !ok || !written[name] {
								continue
							}
							k := acc{name, mode}
							ob := seen[k]
							if ob == nil {
								ob = &Obligation{Rule: id, Construct: "access " + tn + "." + name + " (" + mode + ") in " + FuncName(fn), Pos: p.InstrPos(in), Verdict: Discharged,
									Detail: "a Lock() of a mutex of the same receiver dominates the access and no Unlock() lies between"}
								seen[k] = ob
								keys = append(keys, k)
							}
							if !held(in) {
								ob.Verdict = Violated
								ob.Pos = p.InstrPos(in)
								ob.Detail = "field " + name + " of the handle, which a method of the type writes, is accessed with no mutex of the receiver held: the API returns this object to its caller, " +
									"and two goroutines that call its methods race on the field"
							}
						}
					}
					sort.Slice(keys, func(i, j int) bool {
						if keys[i].field != keys[j].field {
							return keys[i].field < keys[j].field
						}
						return keys[i].mode < keys[j].mode
					})
					for _, k := range keys {
						out = append(out, *seen[k])
					}
				}
			}
			return out
		},
	}
}

func instrIndex(in ssa.Instruction) int {
	for i, x := range in.Block().Instrs {
		if x == in {
			return i
		}
	}
	return -1
}
