// raftlint decides the structural clauses of the given properties of jmsadair/raft by static
// analysis of /repo's current source. See /verif/DESIGN.md.
//
// Exit codes: 0 every obligation discharged (known findings are printed, not counted);
// 1 at least one VIOLATION; 2 the checker could not decide (load error, lost anchor, undecided).
package main

import (
	"encoding/json"
	"flag"
	"fmt"
	"os"
	"path/filepath"
	"sort"
	"strconv"
	"strings"
	"time"

	"verif/internal/lint"
)

func main() {
	var (
		property = flag.String("property", "", "property id (C01..C20) or 'all'")
		tier     = flag.String("tier", "quick", "quick | thorough")
		repo     = flag.String("repo", "/repo", "repository root to analyse")
		verifDir = flag.String("verif", "", "verif root (default: directory above the binary, else /verif)")
		ruleOnly = flag.String("rule", "", "run a single rule id (debugging)")
		noEv     = flag.Bool("no-evidence", false, "do not write evidence/reports (used when analysing scratch variants)")
		verbose  = flag.Bool("v", false, "print every obligation")
		listRule = flag.Bool("list", false, "list properties and rules")
		jsonOut  = flag.Bool("json", false, "print the obligations as JSON instead of the report (used by the sensitivity sweep)")
		specsOut = flag.Bool("specs", false, "print the property specifications as JSON (used to generate MANIFEST.json)")
	)
	flag.Parse()
	start := time.Now()

	root := *verifDir
	if root == "" {
		if exe, err := os.Executable(); err == nil {
			d := filepath.Dir(filepath.Dir(exe))
			if _, err := os.Stat(filepath.Join(d, "MANIFEST.json")); err == nil {
				root = d
			}
		}
		if root == "" {
			root = "/verif"
		}
	}
	if v := os.Getenv("VERIF_TIER"); v != "" && !flagSet("tier") {
		*tier = v
	}
	seed := 0
	if v := os.Getenv("VERIF_SEED"); v != "" {
		if n, err := strconv.Atoi(v); err == nil {
			seed = n
		}
	}

	props := lint.Properties()
	rules := lint.AllRules()
	if *specsOut {
		type js struct {
			ID, Decided, NotDecided string
			Rules, Thorough         []string
			RuleText                map[string]string
		}
		var out []js
		for _, id := range lint.PropertyIDs() {
			sp := props[id]
			j := js{ID: id, Decided: sp.Decided, NotDecided: sp.NotDecided, Rules: sp.Rules, Thorough: sp.Thorough, RuleText: map[string]string{}}
			for _, r := range append(append([]string{}, sp.Rules...), sp.Thorough...) {
				if rr, ok := rules[r]; ok {
					j.RuleText[r] = rr.Text
				}
			}
			out = append(out, j)
		}
		b, _ := json.MarshalIndent(out, "", " ")
		fmt.Println(string(b))
		return
	}
	if *listRule {
		for _, id := range lint.PropertyIDs() {
			fmt.Printf("%s: %s\n", id, strings.Join(props[id].Rules, " "))
		}
		return
	}

	os.Unsetenv("GOWORK")
	prog, err := lint.Load(*repo)
	if err != nil {
		fmt.Printf("UNDECIDED load failure: %v\n", err)
		os.Exit(2)
	}
	findings, err := lint.LoadFindings(filepath.Join(root, "KNOWN_FINDINGS.txt"))
	if err != nil {
		fmt.Printf("UNDECIDED cannot read known findings: %v\n", err)
		os.Exit(2)
	}

	var ids []string
	if *property == "all" || (*property == "" && *ruleOnly == "") {
		ids = lint.PropertyIDs()
	} else if *property != "" {
		if _, ok := props[*property]; !ok {
			fmt.Printf("UNDECIDED property %s is not claimed by this checker\n", *property)
			os.Exit(2)
		}
		ids = []string{*property}
	}
	if *ruleOnly == "all" {
		var rs []*lint.Rule
		var names []string
		for n := range rules {
			names = append(names, n)
		}
		sort.Strings(names)
		for _, n := range names {
			if strings.HasSuffix(n, "-ALL") {
				continue // debugging aggregates would report every obligation twice
			}
			rs = append(rs, rules[n])
		}
		rep := lint.RunRules(prog, "*", rs, findings, "")
		printReport(rep, *verbose)
		os.Exit(rep.ExitCode)
	}
	if *ruleOnly != "" {
		r, ok := rules[*ruleOnly]
		if !ok {
			fmt.Printf("no rule %s\n", *ruleOnly)
			os.Exit(2)
		}
		pid := *property
		if pid == "" {
			pid = "*" // known findings of any property apply
		}
		rep := lint.RunRules(prog, pid, []*lint.Rule{r}, findings, "")
		printReport(rep, true)
		os.Exit(rep.ExitCode)
	}

	exit := 0
	for _, id := range ids {
		t0 := time.Now()
		if len(ids) == 1 {
			t0 = start
		}
		spec := props[id]
		var rs []*lint.Rule
		ruleIDs := append([]string{}, spec.Rules...)
		if *tier == "thorough" {
			ruleIDs = append(ruleIDs, spec.Thorough...)
		}
		seen := map[string]bool{}
		for _, rid := range ruleIDs {
			if seen[rid] {
				continue
			}
			seen[rid] = true
			// "RULE/CLAUSE1,CLAUSE2": only the obligations of RULE whose construct starts with one of the clause names
			base, clauses, _ := strings.Cut(rid, "/")
			r, ok := rules[base]
			if !ok {
				fmt.Printf("UNDECIDED property=%s rule %s is not implemented\n", id, rid)
				exit = max(exit, 2)
				continue
			}
			if clauses != "" {
				if seen[base] {
					continue
				}
				r = lint.OnlyClauses(r, strings.Split(clauses, ","))
			}
			rs = append(rs, r)
		}
		reportDir := filepath.Join(root, "reports")
		if *noEv {
			reportDir = ""
		}
		rep := lint.RunRules(prog, id, rs, findings, reportDir)
		rep.Tier = *tier
		if *tier == "thorough" && !*noEv {
			lint.Thorough(prog, rep, spec, root)
		}
		if *jsonOut {
			var all []lint.Obligation
			for _, rr := range rep.Rules {
				all = append(all, rr.Obligations...)
			}
			b, _ := json.Marshal(all)
			fmt.Println(string(b))
		} else {
			printReport(rep, *verbose)
		}
		if !*noEv {
			if err := lint.WriteEvidence(filepath.Join(root, "evidence", id+".json"), prog, rep, spec, seed, t0); err != nil {
				fmt.Printf("UNDECIDED cannot write evidence: %v\n", err)
				exit = max(exit, 2)
			}
		}
		// exit 1 dominates exit 2
		if rep.ExitCode == 1 {
			exit = 1
		} else if rep.ExitCode == 2 && exit == 0 {
			exit = 2
		}
	}
	os.Exit(exit)
}

func flagSet(name string) bool {
	set := false
	flag.Visit(func(f *flag.Flag) {
		if f.Name == name {
			set = true
		}
	})
	return set
}

func printReport(rep *lint.PropertyReport, verbose bool) {
	tot, dis, kn := 0, 0, 0
	for _, rr := range rep.Rules {
		tot += len(rr.Obligations)
		dis += rr.Discharged
		kn += rr.Known
		if verbose {
			fmt.Printf("[%s] %s: %d instance(s), %d discharged, %d violated, %d known, %d undecided\n", rep.Property, rr.Rule, rr.Instances, rr.Discharged, rr.Violated, rr.Known, rr.Undecided)
			for _, o := range rr.Obligations {
				fmt.Printf("    %-13s %s  (%s)\n        %s\n", o.Verdict, o.Construct, o.Pos, o.Detail)
				if o.Verdict != lint.Discharged {
					for _, f := range o.Facts {
						fmt.Printf("          %s\n", f)
					}
				}
			}
		}
	}
	for _, l := range rep.Lines {
		fmt.Println(l)
	}
	fmt.Printf("%s: %d rule(s), %d obligation(s), %d discharged, %d known finding(s), exit %d\n", rep.Property, len(rep.Rules), tot, dis, kn, rep.ExitCode)
}
