# The four planned repairs that the storage rules must accept: D11 (Replay repairs a torn tail),
# D12 (SetState syncs and closes before the rename), D14 (RemoveTmpFiles returns SkipDir), D15 (bounded chunk).
# Copied from design-probes/planned-fixes.py.txt; applied by tools/mut.sh to a scratch copy.
# D12 SetState: sync and close before rename
sub('state_storage.go','''	filename := filepath.Join(p.stateDir, stateBase)
	if err := os.Rename(tmpFile.Name(), filename); err != nil {''','''	if err := tmpFile.Sync(); err != nil {
		return fmt.Errorf("could not sync temporary file: %w", err)
	}
	if err := tmpFile.Close(); err != nil {
		return fmt.Errorf("could not close temporary file: %w", err)
	}
	filename := filepath.Join(p.stateDir, stateBase)
	if err := os.Rename(tmpFile.Name(), filename); err != nil {''')
# D14 RemoveTmpFiles: SkipDir after removing a directory
sub('internal/fileutil/fileutil.go','''		return os.RemoveAll(path)''','''		if err := os.RemoveAll(path); err != nil {
			return err
		}
		if info.IsDir() {
			return filepath.SkipDir
		}
		return nil''')
# D15 bounded chunk
sub('raft.go','''	n, err := io.Copy(&buf, follower.snapshot)
	if err != nil {''','''	n, err := io.CopyN(&buf, follower.snapshot, snapshotChunkSize)
	if err != nil && err != io.EOF {''')
# D11 Replay repairs a torn tail
sub('log.go','''func (l *persistentLog) Replay() error {
	reader := bufio.NewReader(l.file)

	for {
		entry, err := decodeLogEntry(reader)
		if errors.Is(err, io.EOF) {
			break
		}
		if err != nil {
			return fmt.Errorf("could not decode log entry: %w", err)
		}
		l.entries = append(l.entries, &entry)
	}
''','''func (l *persistentLog) Replay() error {
	reader := &countingReader{reader: bufio.NewReader(l.file)}

	// The offset of the end of the last complete entry.
	var valid int64

	for {
		entry, err := decodeLogEntry(reader)
		if err != nil && reader.count == valid && errors.Is(err, io.EOF) {
			break
		}
		if errors.Is(err, io.EOF) || errors.Is(err, io.ErrUnexpectedEOF) {
			// The last entry was only partially written before a crash. Discard it.
			if err := l.file.Truncate(valid); err != nil {
				return fmt.Errorf("could not truncate log file: %w", err)
			}
			if err := l.file.Sync(); err != nil {
				return fmt.Errorf("could not sync log file: %w", err)
			}
			break
		}
		if err != nil {
			return fmt.Errorf("could not decode log entry: %w", err)
		}
		valid = reader.count
		l.entries = append(l.entries, &entry)
	}

	if _, err := l.file.Seek(valid, io.SeekStart); err != nil {
		return fmt.Errorf("could not seek log file: %w", err)
	}
''')
sub('log.go','''// persistentLog implements the Log interface. Not concurrent safe.''','''// countingReader counts the bytes consumed from the underlying reader.
type countingReader struct {
	reader io.Reader
	count  int64
}

func (c *countingReader) Read(p []byte) (int, error) {
	n, err := c.reader.Read(p)
	c.count += int64(n)
	return n, err
}

// persistentLog implements the Log interface. Not concurrent safe.''')
