#!/usr/bin/env python3
"""Self-test of the storage rules (rules_storage.go), both ways.

usage: selftest/storage/run.py [-j N] [name-substring ...]

For every snippet in mutants/ and benign/ (python `sub(path, old, new)` edits, first line
`# expect: RULE-ID[,RULE-ID...]` or `# expect: none`) a scratch copy of /repo is edited by
tools/mut.sh and analysed with the aggregate rule STORAGE-ALL in a separate process.

  mutant  passes iff every expected rule reports a VIOLATION on a construct that is not violated
          on the pinned tree (`RULE-ID:undecided` accepts UNDECIDED / ANCHOR-LOST instead: the
          edit leaves the shapes the rule can judge, and the rule must say so rather than pass;
          `RULE-ID:pinned` is for incomplete variants of a planned repair: the rule, violated on
          the pinned tree, must still report a VIOLATION);
  benign  passes iff no VIOLATION / UNDECIDED / ANCHOR-LOST (rule, construct) appears that is not
          already reported on the pinned tree.

The tree analysed is $REPO_SRC (default /repo); the snippets were written against the pinned
commit 72d3e09, so once repairs land in /repo point REPO_SRC at an export of that commit
(git --git-dir=/repo/.git archive 72d3e09 | tar -x -C DIR).

repairs.py (the four planned repairs D11, D12, D14, D15) must silence REPLAY-TAIL, STATE-ATOMIC,
WALK-RM and CHUNK-BOUND completely.
"""
import os, re, subprocess, sys, concurrent.futures

here = os.path.dirname(os.path.abspath(__file__))
root = os.path.dirname(os.path.dirname(here))
lint = os.environ.get("RAFTLINT", os.path.join(root, "bin", "raftlint"))
mut = os.path.join(root, "tools", "mut.sh")
pat = re.compile(r'(VIOLATION|UNDECIDED|ANCHOR-LOST)?.*?rule=(\S+) construct="([^"]*)"')

def analyse(edit):
    env = dict(os.environ, RAFTLINT=lint)
    if edit is None:
        out = subprocess.run([lint, "-rule", "STORAGE-ALL", "-no-evidence", "-repo", os.environ.get("REPO_SRC", "/repo")], capture_output=True, text=True, env=env).stdout
    else:
        out = subprocess.run([mut, edit, "--", "-rule", "STORAGE-ALL"], capture_output=True, text=True, env=env).stdout
    if "EDIT FAILED" in out or "BUILD FAILED" in out:
        return None, out
    found = set()
    kind = None
    for line in out.splitlines():
        if line.startswith("VIOLATION"):
            kind = "VIOLATION"; continue
        m = re.match(r'\s+rule=(\S+) construct="([^"]*)"', line)
        if m and kind == "VIOLATION":
            found.add(("VIOLATION", m.group(1), m.group(2))); kind = None; continue
        kind = None
        m = re.match(r'(UNDECIDED|ANCHOR-LOST) property=\S+ rule=(\S+) construct="([^"]*)"', line)
        if m:
            found.add((m.group(1), m.group(2), m.group(3)))
    return found, out

def expect_of(path):
    first = open(path).readline()
    m = re.match(r'#\s*expect:\s*(.*)', first)
    if not m:
        raise SystemExit("no '# expect:' line in " + path)
    e = m.group(1).strip()
    return [] if e == "none" else [x.strip() for x in e.split(",")]

def main():
    args = sys.argv[1:]
    jobs = 8
    if args[:1] == ["-j"]:
        jobs = int(args[1]); args = args[2:]
    base, out = analyse(None)
    print("pinned tree: %d non-discharged obligation(s)" % len(base))
    for k in sorted(base):
        print("   ", *k)
    items = []
    for kind in ("mutants", "benign"):
        d = os.path.join(here, kind)
        for f in sorted(os.listdir(d)):
            if f.endswith(".py") and (not args or any(a in f for a in args)):
                items.append((kind, os.path.join(d, f)))
    if not args or any(a in "repairs" for a in args):
        items.append(("repairs", os.path.join(here, "repairs.py")))
    failures = 0
    with concurrent.futures.ThreadPoolExecutor(jobs) as ex:
        results = list(ex.map(lambda it: analyse(it[1]), items))
    for (kind, path), (found, out) in zip(items, results):
        name = kind + "/" + os.path.basename(path)
        if found is None:
            if "EDIT FAILED" in out and os.environ.get("REPO_SRC", "/repo") != "/repo":
                # written against the repaired tree (/repo HEAD), not against the pinned export: run by tools/selftest.sh
                print("skip %-55s written against the repaired tree; run by tools/selftest.sh" % name); continue
            print("FAIL %-55s edit or build failed\n%s" % (name, out[-400:])); failures += 1; continue
        new = found - base
        if kind == "mutants":
            exp = expect_of(path)
            fired = {r for (k, r, c) in new if k == "VIOLATION"} | {r + ":undecided" for (k, r, c) in new if k != "VIOLATION"}
            fired |= {r + ":pinned" for (k, r, c) in found if k == "VIOLATION"}
            missing = [r for r in exp if r not in fired]
            extra = sorted({r for (k, r, c) in new} - {e.split(":")[0] for e in exp})
            if missing:
                print("FAIL %-55s expected %s, new: %s" % (name, missing, sorted(new))); failures += 1
            else:
                print("ok   %-55s fired %s%s" % (name, sorted(fired & set(exp)), (" (also: %s)" % extra) if extra else ""))
        elif kind == "benign":
            if new:
                print("FAIL %-55s must stay silent, new: %s" % (name, sorted(new))); failures += 1
            else:
                print("ok   %-55s silent" % name)
        else:
            left = sorted(x for x in found if x[1] in ("REPLAY-TAIL", "STATE-ATOMIC", "WALK-RM", "CHUNK-BOUND"))
            if left or new:
                print("FAIL %-55s still reported: %s new: %s" % (name, left, sorted(new))); failures += 1
            else:
                print("ok   %-55s REPLAY-TAIL, STATE-ATOMIC, WALK-RM, CHUNK-BOUND quiet; remaining: %s" % (name, sorted(found)))
    print("%d item(s), %d failure(s)" % (len(items), failures))
    sys.exit(1 if failures else 0)

main()
